#!/usr/bin/env bash
# tools/verify_seeded.sh <worktree> <prop> <name> <crate>
# Confirms, in the sub-agent's scratch worktree, that a seeded change (1) applies, (2) leaves the existing
# workspace test-suite green, (3) makes its demonstration fail, and that (4) the demonstration passes on the
# clean tree.  On success copies it to /verif/seeded/<prop>-<name>/ with a meta.json skeleton.
set -u
WT="$1"; PROP="$2"; NAME="$3"; CRATE="$4"
SRC="$WT/SEEDED/$NAME"; T="demo_$(echo "$NAME" | tr '-' '_')"
export CARGO_NET_OFFLINE=true CARGO_TARGET_DIR="$WT/target"
cd "$WT" || exit 2
git checkout -q -- . && git clean -fdq -e SEEDED -e target
res() { echo "$1" ; }
mkdir -p "$CRATE/tests"; cp "$SRC/demo.rs" "$CRATE/tests/$T.rs"
if cargo test -p "$CRATE" --test "$T" --offline >"$WT/target/demo_clean.out" 2>&1; then clean=pass; else clean=FAIL; fi
rm -f "$CRATE/tests/$T.rs"
if ! git apply "$SRC/patch.diff"; then echo "$PROP/$NAME: patch does not apply"; exit 1; fi
if cargo test --workspace --offline >"$WT/target/suite.out" 2>&1; then suite=pass; else suite=FAIL; fi
mkdir -p "$CRATE/tests"; cp "$SRC/demo.rs" "$CRATE/tests/$T.rs"
if cargo test -p "$CRATE" --test "$T" --offline >"$WT/target/demo_seeded.out" 2>&1; then seeded=PASS; else seeded=fail; fi
rm -f "$CRATE/tests/$T.rs"
git checkout -q -- . && git clean -fdq -e SEEDED -e target
echo "$PROP/$NAME: demo on clean tree=$clean; existing suite with change=$suite; demo with change=$seeded"
if [ $clean = pass ] && [ $suite = pass ] && [ $seeded = fail ]; then
  D="/verif/seeded/$PROP-$NAME"; mkdir -p "$D"
  cp "$SRC/patch.diff" "$SRC/demo.rs" "$SRC/notes.md" "$D/"
  grep -E "^test result|passed|failed" "$WT/target/suite.out" | tail -3 > "$D/suite_with_change.txt"
  tail -15 "$WT/target/demo_seeded.out" > "$D/demo_with_change.txt"
  tail -5 "$WT/target/demo_clean.out" > "$D/demo_clean_tree.txt"
  echo "kept -> $D"
else
  echo "REJECTED"; tail -n 5 "$WT/target/demo_clean.out"; tail -n 5 "$WT/target/demo_seeded.out"
fi
