#!/usr/bin/env bash
# Sensitivity self-test: every patch under /verif/mutants/<prop>/*.diff and /verif/seeded/<id>/patch.diff
# is applied to a scratch copy of /repo (never to /repo itself); minisim is built against the copy and
# the targeted check must report a violation in the quick budget.  The unchanged copy must pass.
#
#   tools/selftest.sh [--with-tests] [--cross] [--cross-runs N] [--shard i/n] [--tier quick|thorough] [--regex RE] [--no-baseline] [pattern]
#
# --cross additionally runs the checks of the OTHER properties against each change and prints a CROSS line when
# one of them alarms (a check should only alarm when its own property is broken).
#
# --with-tests additionally confirms that the repository's own test suite still passes with the patch
# (i.e. the change is one the existing tests cannot see).
set -u
HERE="$(cd "$(dirname "${BASH_SOURCE[0]}")/.." && pwd)"
WITH_TESTS=0; TIER=quick; PATTERN=""; CROSS=0; REGEX=""; BASELINE=1; SHARD_I=0; SHARD_N=1; CROSS_RUNS=""; COUNT=0
while [ $# -gt 0 ]; do
  case "$1" in
    --with-tests) WITH_TESTS=1 ;;
    --cross) CROSS=1 ;;
    --tier) TIER="$2"; shift ;;
    --regex) REGEX="$2"; shift ;;
    --shard) SHARD_I="${2%%/*}"; SHARD_N="${2##*/}"; shift ;;
    --cross-runs) CROSS_RUNS="$2"; shift ;;
    --no-baseline) BASELINE=0 ;;
    *) PATTERN="$1" ;;
  esac
  shift
done
SCRATCH="$(mktemp -d /tmp/minisim-selftest.XXXXXX)"
trap 'rm -rf "$SCRATCH"' EXIT
rsync -a --exclude target --exclude .git /repo/ "$SCRATCH/repo/"
export MINISIM_REPO="$SCRATCH/repo" MINISIM_BUILD="$SCRATCH/build" VERIF_DIR="$SCRATCH/verif"
mkdir -p "$VERIF_DIR"
cp "$HERE/known_findings.json" "$VERIF_DIR/" 2>/dev/null || true

pass=0; fail=0; report=""
run_check() { # prop [extra args] -> exit code, output in $SCRATCH/out
  local p="$1"; shift
  "$HERE/check" "$p" "$TIER" "$@" >"$SCRATCH/out" 2>&1
}
# --shard i/n: this invocation handles every n-th patch (mutants, seeded changes and controls counted together)
in_shard() { COUNT=$((COUNT+1)); [ $(( (COUNT-1) % SHARD_N )) = "$SHARD_I" ]; }

echo "== baseline (unchanged copy) =="
for p in C13 C14 C15 C16; do
  [ $BASELINE = 1 ] || continue
  [ -n "$(ls "$HERE/mutants/$p" 2>/dev/null)" ] || grep -qs "\"$p\"" "$HERE"/seeded/*/meta.json || continue
  if run_check "$p"; then echo "ok   baseline $p"; else echo "FAIL baseline $p (exit $?)"; tail -5 "$SCRATCH/out"; fail=$((fail+1)); fi
done

list=""
for f in "$HERE"/mutants/*/*.diff; do [ -e "$f" ] && list="$list $f"; done
# a seeded patch written against the pinned tree may have been rebased onto the tree with the fix: commits
for f in "$HERE"/seeded/*/patch.diff; do
  [ -e "$f" ] || continue
  if [ -e "$(dirname "$f")/patch.rebased.diff" ]; then list="$list $(dirname "$f")/patch.rebased.diff"; else list="$list $f"; fi
done

for f in $list; do
  case "$f" in *"$PATTERN"*) ;; *) continue ;; esac
  if [ -n "$REGEX" ] && ! [[ "$f" =~ $REGEX ]]; then continue; fi
  in_shard || continue
  if [[ "$f" == */seeded/* ]]; then
    dir="$(dirname "$f")"; name="seeded/$(basename "$dir")"
    props="$(jq -r '.property | if type=="array" then .[] else . end' "$dir/meta.json" | tr '\n' ' ')"
    expect=""
  else
    name="mutants/$(basename "$(dirname "$f")")/$(basename "$f" .diff)"
    props="$(basename "$(dirname "$f")")"
    expect="$(sed -n 's/^# expect: *//p' "$f" | head -1)"
  fi
  if ! (cd "$SCRATCH/repo" && patch -p1 --quiet < "$f" >/dev/null 2>&1); then
    echo "FAIL $name: patch does not apply"; fail=$((fail+1))
    (cd "$SCRATCH" && rm -rf repo && rsync -a --exclude target --exclude .git /repo/ "$SCRATCH/repo/")
    continue
  fi
  tests_ok="-"
  if [ $WITH_TESTS = 1 ]; then
    if (cd "$SCRATCH/repo" && CARGO_TARGET_DIR="$SCRATCH/ttarget" cargo test --workspace --offline --quiet >"$SCRATCH/tout" 2>&1); then tests_ok=pass; else tests_ok=FAIL; fi
  fi
  caught=""
  for p in $props; do
    run_check "$p"; code=$?
    if [ $code = 1 ]; then
      clauses="$(grep -o 'clause=[a-z_0-9]*' "$SCRATCH/out" | sort -u | tr '\n' ' ')"
      caught="$caught $p[$clauses]"
    elif [ $code = 2 ]; then
      caught="$caught $p[HARNESS-ERROR]"
      grep HARNESS "$SCRATCH/out" | head -3
    fi
  done
  cross=""
  if [ $CROSS = 1 ]; then
    for p in C13 C14 C15 C16; do
      case " $props " in *" $p "*) continue ;; esac
      if [ -n "$CROSS_RUNS" ]; then run_check "$p" --runs "$CROSS_RUNS" --no-evidence; else run_check "$p"; fi; code=$?
      [ $code = 0 ] || cross="$cross $p(exit $code:$(grep -o 'clause=[a-z_0-9]*' "$SCRATCH/out" | sort -u | tr '\n' ' '))"
    done
    [ -n "$cross" ] && echo "CROSS $name also alarms:$cross"
  fi
  ok=1
  [ -n "$caught" ] || ok=0
  [[ "$caught" == *HARNESS-ERROR* ]] && ok=0
  if [ -n "$expect" ] && [ $ok = 1 ]; then
    # a watchdog report (clause=hang) is a detection whichever clause was expected: it pre-empts the others
    echo "$caught" | grep -Eq "clause=($expect|hang)" || ok=0
  fi
  [ "$tests_ok" = FAIL ] && ok=0
  if [ $ok = 1 ]; then echo "ok   $name caught:$caught tests=$tests_ok"; pass=$((pass+1));
  else echo "MISS $name caught:'$caught' expect='$expect' tests=$tests_ok"; fail=$((fail+1)); fi
  (cd "$SCRATCH/repo" && patch -p1 -R --quiet < "$f" >/dev/null 2>&1) || { rm -rf "$SCRATCH/repo"; rsync -a --exclude target --exclude .git /repo/ "$SCRATCH/repo/"; }
done
# ---- negative controls: behaviour-preserving changes; NO check may raise an alarm
cpass=0; cfail=0
for f in "$HERE"/controls/*.diff; do
  [ -e "$f" ] || continue
  case "$f" in *"$PATTERN"*) ;; *) continue ;; esac
  if [ -n "$REGEX" ] && ! [[ "$f" =~ $REGEX ]]; then continue; fi
  in_shard || continue
  name="controls/$(basename "$f" .diff)"
  if ! (cd "$SCRATCH/repo" && patch -p1 --quiet < "$f" >/dev/null 2>&1); then
    echo "FAIL $name: patch does not apply"; cfail=$((cfail+1))
    rm -rf "$SCRATCH/repo"; rsync -a --exclude target --exclude .git /repo/ "$SCRATCH/repo/"; continue
  fi
  alarms=""
  for p in C13 C14 C15 C16; do
    run_check "$p"; code=$?
    [ $code = 0 ] || alarms="$alarms $p(exit $code:$(grep -o 'clause=[a-z_0-9]*' "$SCRATCH/out" | sort -u | tr '\n' ' '))"
  done
  tests_ok="-"
  if [ $WITH_TESTS = 1 ]; then
    if (cd "$SCRATCH/repo" && CARGO_TARGET_DIR="$SCRATCH/ttarget" cargo test --workspace --offline --quiet >"$SCRATCH/tout" 2>&1); then tests_ok=pass; else tests_ok=FAIL; fi
  fi
  if [ -z "$alarms" ] && [ "$tests_ok" != FAIL ]; then echo "ok   $name quiet (no check alarms) tests=$tests_ok"; cpass=$((cpass+1));
  else echo "FALSE-ALARM $name:$alarms tests=$tests_ok"; cfail=$((cfail+1)); fi
  (cd "$SCRATCH/repo" && patch -p1 -R --quiet < "$f" >/dev/null 2>&1) || { rm -rf "$SCRATCH/repo"; rsync -a --exclude target --exclude .git /repo/ "$SCRATCH/repo/"; }
done
echo "controls: $cpass quiet, $cfail false alarms/failed"
fail=$((fail+cfail))
echo "selftest: $pass caught, $fail missed/failed"
[ $fail = 0 ]
