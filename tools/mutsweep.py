#!/usr/bin/env python3
"""Mechanical sensitivity sweep: every single-site syntactic mutant of the code the claimed properties are anchored in.

For each mutant (one token-level or line-level change in one file) the script, in a scratch copy of /repo (never /repo itself):
  1. builds minisim against the mutated copy (a mutant that does not compile is discarded),
  2. runs the quick tier of the check(s) responsible for that file,
  3. for a mutant no check reports, runs the repository's own tests of the affected crates: a mutant they kill is one the
     existing suite already sees; what remains ("SURVIVED") is either an equivalent mutant or a gap, and is listed for triage.

usage: tools/mutsweep.py [--jobs 4] [--threads 4] [--only REGEX] [--limit N] [--out mutsweep/results.json]
"""
import argparse, json, os, re, shutil, subprocess, sys, tempfile, threading, queue, time

HERE = os.path.dirname(os.path.dirname(os.path.abspath(__file__)))
REPO = "/repo"

# file -> (line ranges to mutate (1-based, inclusive) or None for the whole file, checks responsible, crates whose tests to run)
TARGETS = {
    "minicbor-io/src/reader.rs": (None, ["C14"], ["minicbor-io"]),
    "minicbor-io/src/writer.rs": (None, ["C14"], ["minicbor-io"]),
    "minicbor-io/src/async_reader.rs": (None, ["C15"], ["minicbor-io"]),
    "minicbor-io/src/async_writer.rs": (None, ["C16"], ["minicbor-io"]),
    "minicbor/src/encode/write.rs": ([(1, 145)], ["C13", "C14", "C16"], ["minicbor-io", "minicbor-tests", "minicbor"]),
}

REL = [(" <= ", " < "), (" >= ", " > "), (" < ", " <= "), (" > ", " >= "), (" == ", " != "), (" != ", " == "), (" < ", " > "), (" > ", " < ")]
ARI = [(" + ", " - "), (" - ", " + "), (" += ", " = "), (" += ", " -= "), (" -= ", " += ")]
WORDS = [("from_be_bytes", "from_le_bytes"), ("to_be_bytes", "to_le_bytes"), ("from_be_bytes", "from_ne_bytes"), (".min(", ".max("), (".max(", ".min("),
         ("Ok(None)", "Err(Error::InvalidLen)"), ("return Ok(())", "return Err(Error::InvalidLen)"), ("continue", "break"),
         ("reserve_exact", "reserve"), ("ref mut o", "mut o"), ("State::None", "State::WriteFrom(0)"), ("State::new()", "State::ReadVal(0)"),
         ("UnexpectedEof", "Interrupted"), ("WriteZero", "Interrupted"), ("Interrupted", "WouldBlock"), ("write_all", "write"), ("read_exact", "read"),
         (".await?", ".await.unwrap_or(0)"), ("?;", ".ok();")]


def code_lines(path, ranges):
    src = open(os.path.join(REPO, path)).read().split("\n")
    out = []
    in_test = False
    for i, l in enumerate(src, 1):
        st = l.strip()
        if st.startswith("#[cfg(test)]"):
            in_test = True
        if in_test:
            continue
        if not st or st.startswith("//") or st.startswith("#[") or st.startswith("use ") or st.startswith("///") or st.startswith("//!"):
            continue
        if ranges and not any(a <= i <= b for a, b in ranges):
            continue
        out.append((i, l))
    return src, out


def mutants_for(path, ranges):
    src, lines = code_lines(path, ranges)
    seen = set()
    res = []

    def add(i, new, op):
        if new == src[i - 1] or (i, new) in seen:
            return
        seen.add((i, new))
        res.append(dict(file=path, line=i, op=op, old=src[i - 1].strip(), new=new.strip() if new is not None else "<deleted>", _new=new))

    for i, l in lines:
        code = l.split("//")[0] if "//" in l and '"' not in l else l
        for group, name in ((REL, "rel"), (ARI, "ari"), (WORDS, "word")):
            for a, b in group:
                start = 0
                while True:
                    k = code.find(a, start)
                    if k < 0:
                        break
                    add(i, l[:k] + b + l[k + len(a):], f"{name}:{a.strip()}->{b.strip()}")
                    start = k + len(a)
        # integer literals
        for m in re.finditer(r"(?<![\w.])(\d+)(?![\w.]*\w)", code):
            n = int(m.group(1))
            for v in {n + 1, n - 1 if n > 0 else None}:
                if v is None:
                    continue
                add(i, l[:m.start(1)] + str(v) + l[m.end(1):], f"int:{n}->{v}")
        # slice bounds
        for m in re.finditer(r"\[([^\[\]]*?) \.\.\]", code):
            add(i, l[:m.start()] + "[..]" + l[m.end():], "slice:from->full")
        for m in re.finditer(r"\[\.\. ([^\[\]]*?)\]", code):
            add(i, l[:m.start()] + "[..]" + l[m.end():], "slice:to->full")
        # conditions
        m = re.match(r"^(\s*(?:\} else )?if )(.+?)( \{\s*)$", l)
        if m and not m.group(2).startswith("let "):
            add(i, m.group(1) + "!(" + m.group(2) + ")" + m.group(3), "cond:negate")
            add(i, m.group(1) + "true" + m.group(3), "cond:true")
            add(i, m.group(1) + "false" + m.group(3), "cond:false")
        m = re.match(r"^(.*\S) if (.+?)( =>.*)$", l)
        if m:
            add(i, m.group(1) + " if !(" + m.group(2) + ")" + m.group(3), "guard:negate")
            add(i, m.group(1) + m.group(3), "guard:drop")
        # statement deletion
        st = l.strip()
        if st.endswith(";") and not st.startswith(("let ", "type ", "pub ", "fn ", "return", "mod ", "struct ", "const ")):
            add(i, None, "stmt:delete")
    return src, res


def sh(cmd, cwd=None, env=None, timeout=1800):
    p = subprocess.run(cmd, cwd=cwd, env=env, stdout=subprocess.PIPE, stderr=subprocess.STDOUT, text=True, timeout=timeout)
    return p.returncode, p.stdout


def worker(wid, q, results, args, root, lock):
    wdir = os.path.join(root, f"w{wid}")
    repo = os.path.join(wdir, "repo")
    os.makedirs(wdir, exist_ok=True)
    sh(["rsync", "-a", "--exclude", "target", "--exclude", ".git", REPO + "/", repo + "/"])
    env = dict(os.environ, MINISIM_REPO=repo, MINISIM_BUILD=os.path.join(wdir, "build"), VERIF_DIR=os.path.join(wdir, "verif"), CARGO_NET_OFFLINE="true")
    os.makedirs(env["VERIF_DIR"], exist_ok=True)
    shutil.copy(os.path.join(HERE, "known_findings.json"), env["VERIF_DIR"])
    while True:
        try:
            m = q.get_nowait()
        except queue.Empty:
            return
        path = os.path.join(repo, m["file"])
        orig = open(os.path.join(REPO, m["file"])).read()
        lines = orig.split("\n")
        if m["_new"] is None:
            del lines[m["line"] - 1]
        else:
            lines[m["line"] - 1] = m["_new"]
        open(path, "w").write("\n".join(lines))
        rec = {k: v for k, v in m.items() if not k.startswith("_")}
        t0 = time.time()
        try:
            code, out = sh([os.path.join(HERE, "check"), "build"], env=env)
            if code != 0:
                rec["status"] = "nocompile"
            else:
                killed = []
                for c in TARGETS[m["file"]][1]:
                    code, out = sh([os.path.join(HERE, "check"), c, "quick", "--workers", str(args.threads)], env=env)
                    if code == 1:
                        killed.append(c + "[" + " ".join(sorted(set(re.findall(r"clause=([a-z_0-9]+)", out)))) + "]")
                        break
                    elif code != 0:
                        killed.append(c + f"[HARNESS-ERROR exit {code}: " + " ".join(out.strip().split("\n")[-2:])[:300] + "]")
                if killed:
                    rec["status"] = "harness_error" if any("HARNESS-ERROR" in k for k in killed) else "killed"
                    rec["by"] = killed
                else:
                    tk = []
                    for crate in TARGETS[m["file"]][2]:
                        tenv = dict(env, CARGO_TARGET_DIR=os.path.join(wdir, "ttarget"))
                        code, out = sh(["cargo", "test", "-p", crate, "--offline", "--quiet"], cwd=repo, env=tenv)
                        if code != 0:
                            tk.append(crate)
                            break
                    rec["status"] = "killed_by_existing_tests" if tk else "SURVIVED"
                    if tk:
                        rec["by"] = tk
        except subprocess.TimeoutExpired:
            rec["status"] = "timeout"
        rec["secs"] = round(time.time() - t0, 1)
        open(path, "w").write(orig)
        with lock:
            results.append(rec)
            print(f"[{len(results)}] {rec['status']:<26} {m['file']}:{m['line']} {m['op']}  {rec.get('by','')}", flush=True)


def main():
    ap = argparse.ArgumentParser()
    ap.add_argument("--jobs", type=int, default=4)
    ap.add_argument("--threads", type=int, default=4)
    ap.add_argument("--only", default="")
    ap.add_argument("--limit", type=int, default=0)
    ap.add_argument("--out", default=os.path.join(HERE, "mutsweep", "results.json"))
    ap.add_argument("--list", action="store_true")
    args = ap.parse_args()
    allm = []
    for f, (ranges, _, _) in TARGETS.items():
        _, ms = mutants_for(f, ranges)
        allm += ms
    if args.only:
        allm = [m for m in allm if re.search(args.only, f"{m['file']}:{m['line']} {m['op']}")]
    if args.limit:
        allm = allm[: args.limit]
    print(f"{len(allm)} mutants", flush=True)
    if args.list:
        for m in allm:
            print(f"{m['file']}:{m['line']} {m['op']}: {m['old']}  =>  {m['new']}")
        return
    q = queue.Queue()
    for m in allm:
        q.put(m)
    root = tempfile.mkdtemp(prefix="minisim-mutsweep.", dir="/tmp")
    results, lock = [], threading.Lock()
    ths = [threading.Thread(target=worker, args=(i, q, results, args, root, lock)) for i in range(args.jobs)]
    [t.start() for t in ths]
    [t.join() for t in ths]
    shutil.rmtree(root, ignore_errors=True)
    try:
        triage = json.load(open(os.path.join(HERE, "mutsweep", "triage.json")))["entries"]
    except OSError:
        triage = []
    for r in results:
        if r["status"] == "SURVIVED":
            for t in triage:
                if t["file"] == r["file"] and t["old"] == r["old"] and t["op"] == r["op"]:
                    r["status"] = "survived_" + t["class"]
                    r["triage"] = t["reason"]
    results.sort(key=lambda r: (r["file"], r["line"], r["op"]))
    summary = {}
    for r in results:
        summary[r["status"]] = summary.get(r["status"], 0) + 1
    os.makedirs(os.path.dirname(args.out), exist_ok=True)
    json.dump(dict(repo_head=subprocess.run(["git", "-C", REPO, "rev-parse", "HEAD"], capture_output=True, text=True).stdout.strip(), summary=summary, results=results), open(args.out, "w"), indent=1)
    print(json.dumps(summary))
    bad = 0
    for r in results:
        if r["status"] in ("SURVIVED", "harness_error", "timeout"):
            bad += 1
            print(f"{r['status']} {r['file']}:{r['line']} {r['op']}: {r['old']}  =>  {r['new']}")
    sys.exit(1 if bad else 0)


if __name__ == "__main__":
    main()
