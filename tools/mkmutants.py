#!/usr/bin/env python3
"""Generate /verif/mutants/<prop>/<name>.diff from the (file, old, new) definitions in mutants/defs.py.

Each mutant is a small, compiling change to /repo that the pinned test-suite does not notice and that
breaks one property.  The diffs are applied to scratch copies only (tools/selftest.sh)."""
import difflib, os, sys, importlib.util
here = os.path.dirname(os.path.dirname(os.path.abspath(__file__)))
spec = importlib.util.spec_from_file_location("defs", os.path.join(here, "mutants", "defs.py"))
defs = importlib.util.module_from_spec(spec); spec.loader.exec_module(defs)
bad = 0
for m in defs.MUTANTS:
    prop, name, expect, edits = m["prop"], m["name"], m.get("expect", ""), m["edits"]
    out = [f"# mutant {prop}/{name}: {m.get('why','')}\n"]
    if expect:
        out.append(f"# expect: {expect}\n")
    by_file = {}
    for (path, old, new) in edits:
        by_file.setdefault(path, []).append((old, new))
    for path, subs in by_file.items():
        src = open(os.path.join("/repo", path)).read()
        dst = src
        for old, new in subs:
            if dst.count(old) != 1:
                print(f"!! {prop}/{name}: pattern occurs {dst.count(old)} times in {path}: {old[:50]!r}"); bad += 1
            dst = dst.replace(old, new, 1)
        out += list(difflib.unified_diff(src.splitlines(True), dst.splitlines(True), "a/" + path, "b/" + path))
    d = os.path.join(here, "mutants", prop); os.makedirs(d, exist_ok=True)
    open(os.path.join(d, name + ".diff"), "w").write("".join(out))
for m in getattr(defs, "CONTROLS", []):
    out = [f"# control {m['name']}: {m.get('why','')}\n"]
    by_file = {}
    for (path, old, new) in m["edits"]:
        by_file.setdefault(path, []).append((old, new))
    for path, subs in by_file.items():
        src = open(os.path.join("/repo", path)).read()
        dst = src
        for old, new in subs:
            if dst.count(old) != 1:
                print(f"!! control/{m['name']}: pattern occurs {dst.count(old)} times in {path}: {old[:50]!r}"); bad += 1
            dst = dst.replace(old, new, 1)
        out += list(difflib.unified_diff(src.splitlines(True), dst.splitlines(True), "a/" + path, "b/" + path))
    d = os.path.join(here, "controls"); os.makedirs(d, exist_ok=True)
    open(os.path.join(d, m["name"] + ".diff"), "w").write("".join(out))
print(f"{len(defs.MUTANTS)} mutants, {len(getattr(defs, 'CONTROLS', []))} controls written, {bad} bad patterns")
sys.exit(1 if bad else 0)
