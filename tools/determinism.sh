#!/usr/bin/env bash
# Determinism proof: every run is a pure function of (VERIF_SEED, property, tier, run index).
#   * many seeds, each executed in separate processes at 1, 5 and 16 workers: digests must be identical
#   * the digest covers per-run trace hashes (sum and position-rotated xor), step counts, fault and probe
#     counters, distinct-trace count, abstract edges and the number of violations found
# exit 0 = deterministic, 2 = divergence (a harness error, never a property violation)
set -u
BIN="$1"; SEEDS="${2:-24}"; RUNS="${3:-3000}"
fail=0
for p in C13 C14 C15 C16; do
  r=$RUNS; [ $p = C13 ] && r=$((RUNS/10))
  for seed in $(seq 1 "$SEEDS") 18446744073709551615 0; do
    a="$(VERIF_SEED=$seed "$BIN" digest $p quick --workers 1 --runs $r)"
    b="$(VERIF_SEED=$seed "$BIN" digest $p quick --workers 16 --runs $r)"
    c="$(VERIF_SEED=$seed "$BIN" digest $p quick --workers 5 --runs $r)"
    if [ "$a" != "$b" ] || [ "$a" != "$c" ]; then
      echo "HARNESS-ERROR nondeterminism property=$p seed=$seed"; echo " 1: $a"; echo "16: $b"; echo " 5: $c"; fail=1
    fi
  done
  echo "deterministic: $p ($((SEEDS+2)) seeds x 3 worker counts x separate processes) last: $a"
done
# different seeds must give different searches
x="$(VERIF_SEED=1 "$BIN" digest C15 quick --runs 2000 | sed 's/seed=[0-9]*//')"; y="$(VERIF_SEED=2 "$BIN" digest C15 quick --runs 2000 | sed 's/seed=[0-9]*//')"
[ "$x" != "$y" ] || { echo "HARNESS-ERROR seed has no effect"; fail=1; }
[ $fail = 0 ] && echo "determinism: ok" || exit 2
