#!/usr/bin/env python3
"""Writes /verif/MANIFEST.json (kept in a script so that the per-property texts live in one place)."""
import json, os
here = os.path.dirname(os.path.dirname(os.path.abspath(__file__)))
BUILT = [l.strip() for l in open(os.path.join(here, "tools", "built.txt")) if l.strip()]

NA = {
 "C01": "pure function of the value (encode to a Vec, decode from a slice): no schedule, clock, fault or interleaving for a simulator to control; input generation alone would be property-based testing, not this technique (DESIGN.md §5)",
 "C02": "totality over all byte strings of a slice decoder is input-space search; Decoder borrows &[u8] and has no reader seam. The one stream-facing conjunct (allocation driven by a declared length arriving over a stream) is checked as clause r_alloc_bound of C14 (DESIGN.md §5)",
 "C03": "encoder bytes vs. RFC 8949 preferred serialisation: pure function of the argument; needs an independent reference encoder, not a simulator",
 "C04": "typed decode vs. the data model on a borrowed slice: pure; strict prefixes are inputs, not faults at an instant",
 "C05": "integer width arithmetic on a decoded head: pure",
 "C06": "skip() on a slice: pure; alloc vs. no-alloc is a build matrix, not a runtime condition",
 "C07": "CborLen vs. bytes written: pure function of the value",
 "C08": "quantifies over type definitions compiled by the derive macro; generated code is pure and nothing is nondeterministic at run time",
 "C09": "same as C08: programs x inputs, pure generated code",
 "C10": "compatibility between two versions of a type: pairs of programs exchanging an intact byte string; no channel faults or schedules in the statement",
 "C11": "tokenise / re-encode identity on a slice: pure",
 "C12": "float bit patterns and half conversion: pure arithmetic",
 "C17": "serde bridge round trip over slices/Vec: pure (its Write seam is the same one C13 covers)",
 "C18": "serde/native interop on the shared data model: pure",
 "C19": "diagnostic display of a slice: pure; its non-termination case is a specific input, found by input search",
 "C20": "differential over cargo feature configurations x inputs: a build matrix with pure code in each build",
}
PENDING = {
 "C13": "check not built yet in this tree (planned: fault enumeration over sink capacities, DESIGN.md §3)",
 "C14": "check not built yet in this tree (planned: blocking Reader/Writer simulation, DESIGN.md §3)",
 "C16": "check not built yet in this tree (planned: AsyncWriter simulation, DESIGN.md §3)",
}
CHECKS = {
 "C13": dict(
   category="fault_enumeration",
   text="For each sampled value sequence (1-4 values, occasionally 260-420, of ~90 types incl. derive-generated codecs, raw Encoder call sequences, non-idempotent / re-entrant / error-annotating / self-failing Encode impls, 64-200 KiB strings) the sink-refuses-at-byte-c fault is enumerated at EVERY capacity 0..=len+1 (selected capacities incl. every internal write boundary +-1 for long encodings) for every shipped sink kind (&mut [u8], Cursor<&mut [u8]>, Cursor<[u8;N]>, Cursor<Box<[u8]>>, Vec<u8> incl. presized, Writer<io::Write> with short writes, EINTR storms, three full-device flavours and non-retryable device errors), inside canary-guarded buffers, against the unbounded reference sink; sequences are also driven through ONE Encoder and continued past failures (bounded-buffer model over the encoder's recorded writes), through the packet-filling pattern (writer_mut swap + retry) and through the io adapter past a device error; to_vec is compared after a failed to_vec; raw write_all histories (all of <= 3 calls for cap <= 6, random up to 12 calls) run on every cursor kind, on moved array cursors, on boxed cursors whose buffer is exchanged, and on the io adapter; an endless value must be stopped by every bounded sink; >4 GiB are streamed through one io adapter. Exhaustive in the fault point, sampled in the value.",
   note="Reference bytes are the library's own Vec<u8> encoding (C13 is about sinks, not RFC correctness). No unsafe in the code under test, so an overrun can only be a panic or a canary hit. Values are sampled, not enumerated.",
   technique="deterministic simulation: exhaustive enumeration of the sink-full fault point per seeded value, scripted io::Write stub (short writes, EINTR, ENOSPC), canary oracle",
   ref="§3 C13"),
 "C14": dict(
   category="exploration",
   text="Blocking Writer -> byte stream -> Reader run under a scripted io::Write / io::Read: every short-read/short-write split, EINTR placement (incl. storms replayed over long histories), truncation offset, poison frame, hostile length prefix, zero-length frame, accept-zero sink and max_len knob (incl. mid-run changes, exactly the default limit also through with_buffer with buffers roomier than the limit, 'no limit') is a scripted lane step or knob; complete frames whose payload lies about its size (array/map/string headers announcing millions of elements) are read by the owning families; sources with an all-or-nothing read_exact override, scribbling of unfilled buffer space and vectored I/O are part of the environment; run shapes cover 1-8 frames, 17-48 and 257-600 frame histories with size spikes, 65 700 frames, big frames (64-200 KiB, also delivered in uniform small pieces), a >16 MiB frame, identical consecutive frames and roomy/garbage recycled buffers. Single-fault sweeps (every cut offset, every chunk size, EINTR before every call, each fatal kind before every call, all 2^(n-1) compositions of a short stream) give a seed-independent floor; the seeded swarm search explores the interactions. Oracle: single-copy frame log + sequential stream parser + counting allocator armed around library calls (every new allocation is judged against the limit in force, also after InvalidLen; a request of >= 64 GiB is reported as a violation with a replay file instead of aborting the process).",
   note="Needs the fix: commit e713753 in /repo (Reader reserved by Vec's amortised growth and could hold a buffer of nearly 2 x max_len; see known_findings.json). The allocation clause is literal: frame-buffer capacity <= max(max_len, caller-provided capacity). After the first InvalidLen / UnexpectedEof / fatal error the reader phase of a run ends. Payload codec is the library's own.",
   technique="deterministic simulation with fault injection: seeded search over scripted short reads/writes, EINTR, truncation, poison frames, hostile prefixes; single-fault sweeps; frame-log reference model",
   ref="§3 C14"),
 "C15": dict(
   category="exploration",
   text="AsyncReader::read runs under a hand-written single-task executor and a scripted AsyncRead that own every poll outcome (deliver k bytes / Pending / one of ten transient error kinds / EOF) and every caller decision (keep polling / drop the future and re-issue read, incl. on every Pending once the script ends). Sweeps place a cancellation at every Pending position, each error kind before every byte, every cut offset, every chunk size and every pair of cancellations on small fixed streams; all lanes of depth 7 (thorough: 9) over a six-letter alphabet are enumerated; a seeded swarm search covers the interactions (1-600 frames with spikes and fault storms, 65 700 frames, 18 payload families incl. borrowed, zero-length, tag-55799 and sequence-reading types, big frames in uniform small pieces, garbage/roomy initial buffers incl. roomier than the default limit, max_len knobs incl. mid-frame, into_parts/with_buffer round trips, reader_mut touches) and a two-task pipe world with honest wakers (lost wake-ups are deadlocks). Oracle: frame log, exactly-once error reporting, truncation, no-early-value and bounded progress once faults stop.",
   note="Sampling, not proof. The executor is single-task (the API is &mut self, so there is no concurrent use to schedule). Payload codec is the library's own. Wake-up correctness of the underlying AsyncRead is the stub's, not the library's.",
   technique="deterministic simulation: scripted AsyncRead + own executor, seeded search over poll/cancel schedules and fault sequences, single/double-fault sweeps, frame-log reference model",
   ref="§3 C15"),
 "C16": dict(
   category="exploration",
   text="AsyncWriter::write/sync/flush run under the same executor and a scripted AsyncWrite (accept k of n / Pending / ten transient error kinds / accept 0; scripted poll_flush outcomes; vectored writes). The caller follows exactly the licensed protocol (a pending write may be dropped, then sync is driven to completion, itself droppable; flush, writer_mut and set_max_len may be interleaved). After EVERY executor step the sink must equal committed-log ++ prefix-of-in-flight-frame; completed writes report the payload length; idle sync offers nothing; write-zero and transient errors surface once and sync resumes; failing/oversize values add no byte. Sweeps: every accept size, cancel at every position, cancel of the sync at every position, Zero/each error before every byte, max_len around the frame size and at the default limit (also through with_buffer with buffers roomier than the limit), enumerated lanes of depth 7 (9); seeded swarm beyond (1-600 items with fault storms, 65 700 items, identical consecutive values, zero-length and non-idempotent encodings, 64-200 KiB frames in uniform small pieces or page-scale pieces, a >16 MiB frame, roomy/garbage buffers) and the two-task pipe world.",
   note="Sampling, not proof. Callers that start a new write without syncing after a cancellation are outside the property and not generated. Payload codec is the library's own.",
   technique="deterministic simulation: scripted AsyncWrite + own executor, seeded search over accept/Pending/error/zero outcomes and cancel-then-sync schedules, prefix-of-log invariant after every step",
   ref="§3 C16"),
}

checks = []
for pid in ["C13", "C14", "C15", "C16"]:
    if pid not in BUILT: continue
    c = CHECKS[pid]
    checks.append(dict(
        property_id=pid,
        quick_cmd=f"./check {pid} quick",
        thorough_cmd=f"./check {pid} thorough",
        evidence_file=f"evidence/{pid}.json",
        replay_cmd_template=f"./check {pid} --replay {{path}}",
        engine="minisim",
        level_claimed=dict(category=c["category"], text=c["text"], design_ref=c["ref"]),
        level_note=c["note"],
        technique=c["technique"]))
na = [dict(property_id=k, reason=v) for k, v in sorted({**NA, **{k: v for k, v in PENDING.items() if k not in BUILT}}.items())]
m = dict(
    version=1,
    setup_cmd="./check build",
    hooks=dict(guard="minicbor_verif", enable="no hooks exist: every seam the simulator needs (encode::Write, io::Read/Write, AsyncRead/AsyncWrite, the global allocator) is already a type parameter of the code under test; checks build /repo's working tree unmodified through path dependencies",
               baseline_off_cmd="cd /repo && cargo test --workspace --no-fail-fast --offline", source_commits=[], add_only=True),
    engines=[dict(name="minisim", path="sim", serves_properties=[c["property_id"] for c in checks],
                  kind_free_text="hand-written deterministic simulator (Rust): scripted Read/Write/AsyncRead/AsyncWrite stubs, single-task executor that owns poll/cancel decisions, counting allocator, seeded scenario generator, delta-debugging minimiser, JSON replay files")],
    checks=checks,
    notes="Technique family: deterministic simulation with fault injection. Properties whose truth is a pure function of the arguments of one call are listed under not_applicable (DESIGN.md §0, §5). known_findings.json: one genuine C14 defect (reader buffer growth beyond max_len), repaired by /repo commit e713753 (fix:); no open findings. tools/selftest.sh proves sensitivity against mutants/ (59) and seeded/ (207 independently written changes, 16 rounds) and the absence of false alarms against controls/ (37 correct re-implementations); tools/mutsweep.py sweeps every single-site syntactic mutant of the anchored files (184 of 193 compiling mutants killed, 9 triaged as equivalent or outside the properties); ./check determinism proves replayability (26 seeds x 3 worker counts x separate processes). Results: DESIGN.md sections 10.3, 11, 12, 13.",
    not_applicable=na)
json.dump(m, open(os.path.join(here, "MANIFEST.json"), "w"), indent=1)
print("MANIFEST.json:", [c["property_id"] for c in checks], "NA:", len(na))
