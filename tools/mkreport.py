#!/usr/bin/env python3
"""Turns the output of `tools/selftest.sh --cross` (file given as argv[1]) into the tables of DESIGN.md §11/§12
(between the markers <!-- SELFTEST:BEGIN --> and <!-- SELFTEST:END -->)."""
import re, sys, json, os, importlib.util
here = os.path.dirname(os.path.dirname(os.path.abspath(__file__)))
out = open(sys.argv[1]).read()
spec = importlib.util.spec_from_file_location("defs", os.path.join(here, "mutants", "defs.py"))
defs = importlib.util.module_from_spec(spec); spec.loader.exec_module(defs)
why = {f"mutants/{m['prop']}/{m['name']}": m.get("why", "") for m in defs.MUTANTS}
rows_m, rows_s, cross = [], [], []
for line in out.splitlines():
    m = re.match(r"(ok|MISS|FAIL)\s+(\S+) caught:\s*'?(.*?)'?\s+(?:expect='.*' )?tests=", line)
    if m:
        status, name, caught = m.groups()
        caught = re.sub(r"clause=", "", caught).strip()
        if name.startswith("seeded/"):
            meta = json.load(open(os.path.join(here, name, "meta.json")))
            rows_s.append((name[7:], meta["property"], meta.get("round", 1), meta["needs_to_manifest"], caught if status == "ok" else "**MISSED**"))
        else:
            rows_m.append((name[8:], why.get(name, ""), caught if status == "ok" else "**MISSED**"))
    if line.startswith("CROSS"):
        cross.append(line)
md = ["## 11. Own mutants (mutants/defs.py) — check and clauses that catch each, quick tier\n",
      "| mutant | what it changes | caught by (check[clauses]) |", "|---|---|---|"]
md += [f"| `{n}` | {w} | {c} |" for n, w, c in rows_m]
md += ["", "## 12. Independently seeded changes (seeded/*/) — quick tier\n",
       "| change | property | round | what it needs to manifest | caught by (check[clauses]) |", "|---|---|---|---|---|"]
md += [f"| `{n}` | {p} | {r} | {w} | {c} |" for n, p, r, w, c in rows_s]
md += ["", f"Cross-property alarms (a check other than the broken property's raising an alarm): {len(cross)}" + ("" if not cross else "\n\n```\n" + "\n".join(cross) + "\n```"),
       "", re.search(r"selftest: .*", out).group(0) if re.search(r"selftest: .*", out) else ""]
p = os.path.join(here, "DESIGN.md"); s = open(p).read()
b, e = "<!-- SELFTEST:BEGIN -->", "<!-- SELFTEST:END -->"
block = b + "\n" + "\n".join(md) + "\n" + e
if b in s:
    s = s[:s.index(b)] + block + s[s.index(e) + len(e):]
else:
    s = s.rstrip() + "\n\n" + block + "\n"
open(p, "w").write(s)
print(f"{len(rows_m)} mutants, {len(rows_s)} seeded, {len(cross)} cross alarms")
