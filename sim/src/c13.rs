//! C13 — bounded sinks: encoding succeeds iff it fits, never overruns, sink-independent.
//!
//! The fault is "the sink refuses at byte c" (a full buffer / full disk).  For every sampled
//! value sequence the fault point is enumerated exhaustively: every capacity 0..=n+1 for every
//! shipped sink kind.  The `std::io::Write` adaptor additionally meets short writes, EINTR and
//! both flavours of a full device (`StorageFull` error, `Ok(0)`).

use crate::engine::{fail, fk, pb, Obs, Property, Scenario, Tier, Violation};
use crate::json::{hex, Json};
use crate::rng::Rng;
use crate::stubs::*;
use crate::values::*;
use minicbor::encode::write::{Cursor, EndOfArray, EndOfSlice, Writer};
use minicbor::encode::Write;
use minicbor::Encode;
use std::cell::RefCell;
use std::fmt::Debug;
use std::rc::Rc;

const CANARY: u8 = 0xC7;
const PATTERN: u8 = 0x5A;
const GUARD: usize = 32;
/// values whose encoding is at most this long get every capacity 0..=n+1
const EXHAUSTIVE_UPTO: usize = 320;

#[derive(Clone, Copy, Debug, PartialEq, Eq)]
pub enum Sink {
    Slice,
    SliceCursor,
    ArrayCursor,
    BoxCursor,
    VecSink,
    IoWriter,
}

pub const SINKS: [Sink; 6] = [Sink::Slice, Sink::SliceCursor, Sink::ArrayCursor, Sink::BoxCursor, Sink::VecSink, Sink::IoWriter];

impl Sink {
    fn name(self) -> &'static str {
        match self {
            Sink::Slice => "slice",
            Sink::SliceCursor => "slice_cursor",
            Sink::ArrayCursor => "array_cursor",
            Sink::BoxCursor => "box_cursor",
            Sink::VecSink => "vec",
            Sink::IoWriter => "io_writer",
        }
    }
    fn parse(s: &str) -> Option<Sink> {
        SINKS.iter().copied().find(|k| k.name() == s)
    }
}

#[derive(Clone, Debug)]
pub enum C13 {
    /// encode `values` one after the other through one `Encoder` into each sink kind at each capacity
    Encode {
        values: Vec<ValSpec>,
        /// restrict to one sink kind (replay / minimised form); None = all six
        sink: Option<Sink>,
        /// restrict to one capacity; None = all (or the selected set for long encodings)
        cap: Option<u32>,
        /// sub-seed for the io sink's lane (short writes, EINTR) and the full-device flavour
        io_seed: u64,
    },
    /// raw `write_all` history on one cursor kind against the bounded-buffer model
    Raw { sink: Sink, cap: u32, writes: Vec<u32> },
    /// raw `write_all` history on a boxed cursor whose buffer the caller exchanges for a larger one (same content) through
    /// `Cursor::get_mut()` after write number `at`: the position stays, the room grows
    Regrow { cap: u32, new_cap: u32, at: u32, writes: Vec<u32> },
    /// an ENDLESS value (an indefinite-length array over an iterator that never ends) into each bounded sink of `cap`
    /// bytes: the sink bounds the work -- the call must come back with a write error and a prefix of `9f 07 07 07 ...`
    Endless { cap: u32 },
    /// a long stream through ONE io adapter: `count` byte strings of `chunk` bytes into a device that accepts everything
    /// (at most `piece` bytes per call, 0 = no bound) and only counts -- cumulative counters beyond 2^32 bytes
    Stream { chunk: u32, count: u32, piece: u32 },
}

#[derive(Debug)]
struct ErrInfo {
    is_write: bool,
    msg: String,
}

struct EncodeInto<'a, S: Write + ?Sized> {
    sink: &'a mut S,
}

impl<'a, S: Write + ?Sized> EncVisitor for EncodeInto<'a, S> {
    type Out = Result<(), ErrInfo>;
    fn visit<T: Encode<()> + Debug>(self, v: &T) -> Self::Out {
        minicbor::encode(v, self.sink).map_err(|e| ErrInfo { is_write: e.is_write(), msg: format!("{:?}", e.to_string_lossy()) })
    }
}

trait LossyMsg {
    fn to_string_lossy(&self) -> String;
}
impl<E> LossyMsg for minicbor::encode::Error<E> {
    fn to_string_lossy(&self) -> String {
        if self.is_write() {
            "write error".into()
        } else if self.is_message() {
            "message error".into()
        } else {
            "custom error".into()
        }
    }
}

/// Encode all values in order into `sink`; stops at the first error like a caller using `?`.
fn encode_all<S: Write + ?Sized>(values: &[ValSpec], sink: &mut S) -> Result<(), ErrInfo> {
    for v in values {
        with_value(v, EncodeInto { sink: &mut *sink })?;
    }
    Ok(())
}

struct EncodeThrough<'e, S: Write> {
    enc: &'e mut minicbor::Encoder<S>,
}

impl<'e, S: Write> EncVisitor for EncodeThrough<'e, S> {
    type Out = Result<(), ErrInfo>;
    fn visit<T: Encode<()> + Debug>(self, v: &T) -> Self::Out {
        self.enc.encode(v).map(|_| ()).map_err(|e| ErrInfo { is_write: e.is_write(), msg: format!("{:?}", e.to_string_lossy()) })
    }
}

/// Encode all values through ONE `Encoder` and keep going after a failure, like a caller that fills a packet with as many
/// records as fit: one result per value.
fn encode_each<S: Write + ?Sized>(values: &[ValSpec], sink: &mut S) -> Vec<Result<(), ErrInfo>> {
    let mut enc = minicbor::Encoder::new(&mut *sink);
    values.iter().map(|v| with_value(v, EncodeThrough { enc: &mut enc })).collect()
}

/// What the bounded-buffer model says about `encode_each`: every internal write is all-or-nothing, a value fails at its first
/// write that does not fit and the next value starts where the sink then stands.
struct Continued {
    ok: Vec<bool>,
    /// the value fails by itself (its `Encode` impl returns a non-write error) after all its writes were accepted
    own_error: Vec<bool>,
    bytes: Vec<u8>,
}

fn continued_model(reference: &[u8], cuts: &[usize], per_value: &[usize], self_fail: &[bool], cap: usize) -> Continued {
    let mut ok = Vec::new();
    let mut own_error = Vec::new();
    let mut bytes = Vec::new();
    let mut w = 0usize; // index into cuts
    let mut start = 0usize;
    for &nw in per_value {
        let mut good = true;
        for k in w..w + nw {
            let end = cuts[k];
            if good {
                if bytes.len() + (end - start) <= cap {
                    bytes.extend_from_slice(&reference[start..end]);
                } else {
                    good = false;
                }
            }
            start = end;
        }
        w += nw;
        let fails_itself = self_fail.get(ok.len()).copied().unwrap_or(false);
        own_error.push(good && fails_itself);
        ok.push(good && !fails_itself);
    }
    Continued { ok, own_error, bytes }
}

fn judge_continued(k: &str, c: usize, results: &[Result<(), ErrInfo>], pos: usize, content: &[u8], m: &Continued) -> Result<(), Violation> {
    for (j, r) in results.iter().enumerate() {
        match r {
            Ok(()) if !m.ok[j] => fail!("fit_iff", "{k} cap={c}: value #{j} of a sequence on one Encoder reported success although its encoding does not fit the room left"),
            Err(e) if m.ok[j] => fail!("fit_iff", "{k} cap={c}: value #{j} of a sequence on one Encoder fits the room left (earlier values were refused) but returned an error ({})", e.msg),
            Err(_) if m.own_error[j] => {}
            Err(e) if !e.is_write => fail!("err_is_write", "{k} cap={c}: value #{j} of a sequence on one Encoder does not fit, but the failure is not reported as a write error ({})", e.msg),
            _ => {}
        }
    }
    if pos != m.bytes.len() {
        fail!("position_accounting", "{k} cap={c}: after a sequence on one Encoder (continued past failures) the position is {pos}, the accepted bytes are {}", m.bytes.len());
    }
    if content.len() < pos || content[..pos] != m.bytes[..] {
        fail!("prefix_left", "{k} cap={c}: after a sequence on one Encoder (continued past failures) the accepted bytes are not the accepted writes in order");
    }
    Ok(())
}

/// The "fill packets" pattern of a no_std user: one long-lived `Encoder` over an owned cursor of `cap` bytes; when a value does
/// not fit, the full packet is taken out through `writer_mut()`, a fresh cursor is installed and the value is tried once more.
/// Returns the packets (valid bytes only) or the violation.
fn packetize(values: &[ValSpec], cap: usize, encodings: &[&[u8]]) -> Result<(), Violation> {
    let mut enc = minicbor::Encoder::new(Cursor::new(vec![PATTERN; cap].into_boxed_slice()));
    let mut packets: Vec<Vec<u8>> = Vec::new();
    // model: greedy packing; a value longer than a whole packet is dropped
    let mut model: Vec<Vec<u8>> = vec![Vec::new()];
    for (j, v) in values.iter().enumerate() {
        let e = encodings[j];
        let before = enc.writer().position();
        let first = with_value(v, EncodeThrough { enc: &mut enc });
        let fits_here = model.last().unwrap().len() + e.len() <= cap;
        match (&first, fits_here) {
            (Ok(()), true) => {
                model.last_mut().unwrap().extend_from_slice(e);
                continue;
            }
            (Ok(()), false) => fail!("fit_iff", "packets of {cap} bytes: value #{j} ({} bytes) reported success with {} bytes of room left", e.len(), cap - model.last().unwrap().len()),
            (Err(er), true) => fail!("fit_iff", "packets of {cap} bytes: value #{j} ({} bytes) fits the room left ({}) but was refused ({})", e.len(), cap - model.last().unwrap().len(), er.msg),
            (Err(er), false) if !er.is_write => fail!("err_is_write", "packets of {cap} bytes: value #{j} does not fit, but the failure is not a write error ({})", er.msg),
            (Err(_), false) => {}
        }
        // ship the packet as it stood before the refused value, start a fresh one, try the value again
        let full = std::mem::replace(enc.writer_mut(), Cursor::new(vec![PATTERN; cap].into_boxed_slice()));
        packets.push(full.into_inner()[..before].to_vec());
        model.push(Vec::new());
        let second = with_value(v, EncodeThrough { enc: &mut enc });
        match (&second, e.len() <= cap) {
            (Ok(()), true) => model.last_mut().unwrap().extend_from_slice(e),
            (Ok(()), false) => fail!("fit_iff", "packets of {cap} bytes: value #{j} ({} bytes) reported success in a fresh packet", e.len()),
            (Err(er), true) => fail!("fit_iff", "packets of {cap} bytes: value #{j} ({} bytes) was refused by a FRESH packet on the same Encoder ({})", e.len(), er.msg),
            (Err(er), false) if !er.is_write => fail!("err_is_write", "packets of {cap} bytes: value #{j} is longer than a packet, but the failure is not a write error ({})", er.msg),
            (Err(_), false) => {
                // too long for any packet: dropped; whatever prefix it left is discarded with a fresh cursor
                *enc.writer_mut() = Cursor::new(vec![PATTERN; cap].into_boxed_slice());
            }
        }
    }
    let last = enc.into_writer();
    let pos = last.position();
    packets.push(last.into_inner()[..pos.min(cap)].to_vec());
    if packets != model {
        let k = packets.iter().zip(model.iter()).position(|(a, b)| a != b).unwrap_or(packets.len().min(model.len()));
        fail!("bytes_equal", "packets of {cap} bytes: packet #{k} differs from greedy packing of the encodings ({} packets, expected {})", packets.len(), model.len());
    }
    Ok(())
}

/// A sequence through ONE `Encoder` over the io adapter on a device with room for everything, whose lane contains short
/// writes, EINTR and one non-retryable error: every value must either add exactly its encoding to the device or -- when the
/// device failed during it -- fail with a write error and add a prefix of its encoding; the values after it are unaffected
/// (nothing of an earlier item may be sent later, nothing of a later item may be skipped).
fn io_continued(values: &[ValSpec], encodings: &[&[u8]], io_seed: u64, obs: &Rc<RefCell<Obs>>) -> Result<(), Violation> {
    let (mut lane, _, _) = io_lane(io_seed ^ 0x10C0, 0);
    let mut r = Rng::new(io_seed ^ 0x7A11);
    let at = r.below(lane.len() as u64 + 1) as usize;
    lane.insert(at, Step::Err(*r.pick(&[ErrKind::WouldBlock, ErrKind::TimedOut, ErrKind::Other, ErrKind::ConnectionReset])));
    let total: usize = encodings.iter().map(|e| e.len()).sum();
    let budget = lane.len() as u64 + 4 * encodings.len() as u64 + 2 * total as u64 + 64;
    let core = SinkCore::new(lane, None, budget, obs.clone());
    core.borrow_mut().allow_fatal = true;
    let mut enc = minicbor::Encoder::new(Writer::new(SimSink(core.clone())));
    for (j, v) in values.iter().enumerate() {
        let before = core.borrow().data.len();
        let device_errors = |c: &SinkCore| -> u64 { ERR_KINDS.iter().filter(|k| **k != ErrKind::Interrupted).map(|k| c.served_err[k.idx()]).sum() };
        let errors_before = device_errors(&core.borrow());
        let res = with_value(v, EncodeThrough { enc: &mut enc });
        let c = core.borrow();
        if c.cap_hit {
            fail!("progress", "io_writer sequence: sink call cap exceeded at value #{j}");
        }
        let gained = &c.data[before..];
        let failed_now = device_errors(&c) > errors_before;
        match res {
            Ok(()) => {
                if gained != encodings[j] {
                    fail!("bytes_equal", "io_writer sequence: value #{j} reported success but the device gained {} bytes that are not its {}-byte encoding", gained.len(), encodings[j].len());
                }
            }
            Err(e) => {
                if !failed_now {
                    fail!("fit_iff", "io_writer sequence: value #{j} failed ({}) although the device did not fail during it", e.msg);
                }
                if !e.is_write {
                    fail!("err_is_write", "io_writer sequence: the device error during value #{j} is not reported as a write error ({})", e.msg);
                }
                if gained.len() > encodings[j].len() || gained != &encodings[j][..gained.len()] {
                    fail!("prefix_left", "io_writer sequence: after the device error during value #{j} the {} bytes it added are not a prefix of its encoding", gained.len());
                }
            }
        }
    }
    Ok(())
}

/// Records the encoder's internal `write_all` sequence (lengths), to know the write boundaries.
struct Rec {
    bytes: Vec<u8>,
    cuts: Vec<usize>,
}

impl Write for Rec {
    type Error = std::convert::Infallible;
    fn write_all(&mut self, buf: &[u8]) -> Result<(), Self::Error> {
        self.bytes.extend_from_slice(buf);
        self.cuts.push(self.bytes.len());
        Ok(())
    }
}

/// Forwards every `write_all` to the real sink and counts the bytes of the calls that succeeded:
/// "the number of bytes accepted so far", observed independently of the sink's own position.
struct Tap<'a, S: Write + ?Sized> {
    inner: &'a mut S,
    ok_bytes: usize,
    failed_calls: u32,
}

impl<'a, S: Write + ?Sized> Tap<'a, S> {
    fn new(inner: &'a mut S) -> Self {
        Tap { inner, ok_bytes: 0, failed_calls: 0 }
    }
}

impl<'a, S: Write + ?Sized> Write for Tap<'a, S> {
    type Error = S::Error;
    fn write_all(&mut self, buf: &[u8]) -> Result<(), Self::Error> {
        match self.inner.write_all(buf) {
            Ok(()) => {
                self.ok_bytes += buf.len();
                Ok(())
            }
            Err(e) => {
                self.failed_calls += 1;
                Err(e)
            }
        }
    }
}

struct Outcome<'a> {
    sink: Sink,
    cap: usize,
    result: Result<(), ErrInfo>,
    accepted: usize,
    /// bytes of the write_all calls the sink answered with Ok (None for the io adapter, which may take part of a chunk)
    tapped: Option<usize>,
    /// a non-retryable device error was injected (io adapter only)
    device_error: bool,
    /// the sink's bytes `0 .. min(cap, something)`: at least `accepted` bytes long
    content: &'a [u8],
}

/// The single-pass verdicts do not apply to a sequence in which a value fails by itself (only the continued pass does).
fn judge_unless(skip: bool, o: &Outcome, reference: &[u8]) -> Result<(), Violation> {
    if skip {
        return Ok(());
    }
    judge(o, reference)
}

fn judge(o: &Outcome, reference: &[u8]) -> Result<(), Violation> {
    let n = reference.len();
    let k = o.sink.name();
    let c = o.cap;
    if let Some(t) = o.tapped {
        if o.accepted != t {
            fail!("position_accounting", "{k} cap={c}: position is {} but the sink accepted {t} bytes (sum of its successful write_all calls)", o.accepted);
        }
    }
    match &o.result {
        Ok(()) => {
            if n > c {
                fail!("fit_iff", "{k} cap={c}: encoding of {n} bytes reported success");
            }
            if o.accepted != n {
                fail!("position_accounting", "{k} cap={c}: success but position/accepted is {} and the encoding has {n} bytes", o.accepted);
            }
            if o.content.len() < n || o.content[..n] != reference[..] {
                let d = o.content.iter().zip(reference.iter()).position(|(a, b)| a != b).unwrap_or(o.content.len().min(n));
                fail!(
                    "bytes_equal",
                    "{k} cap={c}: sink bytes differ from the unbounded encoding at offset {d}: {} vs {}",
                    hex(&o.content[d.min(o.content.len())..o.content.len().min(d + 8)]),
                    hex(&reference[d.min(n)..n.min(d + 8)])
                );
            }
        }
        Err(e) => {
            if n <= c && !o.device_error {
                fail!("fit_iff", "{k} cap={c}: encoding of {n} bytes fits but returned an error ({})", e.msg);
            }
            if !e.is_write {
                fail!("err_is_write", "{k} cap={c}: failure is not reported as a write error ({})", e.msg);
            }
            if o.accepted > c {
                fail!("position_accounting", "{k} cap={c}: position/accepted {} exceeds the capacity", o.accepted);
            }
            if o.accepted > n || o.content.len() < o.accepted || o.content[..o.accepted] != reference[..o.accepted] {
                fail!("prefix_left", "{k} cap={c}: the {} accepted bytes are not a prefix of the correct encoding", o.accepted);
            }
        }
    }
    Ok(())
}

fn canaries_ok(backing: &[u8], c: usize, k: &str) -> Result<(), Violation> {
    if backing[..GUARD].iter().any(|b| *b != CANARY) || backing[GUARD + c..].iter().any(|b| *b != CANARY) {
        fail!("no_overrun", "{k} cap={c}: a byte outside the sink was modified");
    }
    Ok(())
}

fn guarded(c: usize) -> Vec<u8> {
    let mut b = vec![CANARY; GUARD + c + GUARD];
    for x in &mut b[GUARD..GUARD + c] {
        *x = PATTERN
    }
    b
}

// ---- array cursors need the capacity at compile time

/// Object-safe view of `Cursor<[u8; N]>` so that one code path serves every N.
trait ArrCur: Write<Error = EndOfArray> {
    fn pos(&self) -> usize;
    fn bytes(&self) -> &[u8];
}

impl<const N: usize> ArrCur for Cursor<[u8; N]> {
    fn pos(&self) -> usize {
        self.position()
    }
    fn bytes(&self) -> &[u8] {
        &self.get_ref()[..]
    }
}

fn with_array<const N: usize, R>(f: &mut dyn FnMut(&mut dyn ArrCur) -> R) -> R {
    let mut cur = Cursor::new([PATTERN; N]);
    f(&mut cur)
}

macro_rules! array_dispatch {
    ($cap:expr, $f:expr; $($n:literal)*) => {
        match $cap {
            $($n => Some(with_array::<$n, R>($f)),)*
            _ => None,
        }
    };
}

fn array_sink<R>(cap: usize, f: &mut dyn FnMut(&mut dyn ArrCur) -> R) -> Option<R> {
    array_dispatch!(cap, f;
        0 1 2 3 4 5 6 7 8 9 10 11 12 13 14 15 16 17 18 19 20 21 22 23 24 25 26 27 28 29 30 31 32 33 34 35 36 37 38 39 40
        41 42 43 44 45 46 47 48 49 50 51 52 53 54 55 56 57 58 59 60 61 62 63 64 65 66 67 68 69 70 71 72
        96 127 128 129 160 200 254 255 256 257 258 259 260 261 262 300 320 321 512 1000 1024 4096)
}

pub fn array_cap_supported(cap: usize) -> bool {
    cap <= 72 || [96, 127, 128, 129, 160, 200, 254, 255, 256, 257, 258, 259, 260, 261, 262, 300, 320, 321, 512, 1000, 1024, 4096].contains(&cap)
}

/// Deterministic io-sink lane for (io_seed, cap): short writes, EINTR and (one run in five) one non-retryable device error.
fn io_lane(io_seed: u64, cap: usize) -> (Vec<Step>, FullMode, bool) {
    let mut r = Rng::new(io_seed ^ (cap as u64).wrapping_mul(0x9E37_79B9));
    let mode = *r.pick(&[FullMode::Error, FullMode::Error, FullMode::Zero, FullMode::Zero, FullMode::WouldBlock]);
    let style = r.below(4);
    let n = r.usize_in(0, 24);
    // one run in five: the device fails once with a non-retryable error somewhere in the middle
    let fatal = r.chance(1, 5);
    let mut lane: Vec<Step> = (0..n)
        .map(|_| match style {
            0 => Step::Xfer(u32::MAX),
            1 => Step::Xfer(1 + r.below(3) as u32),
            2 => {
                if r.chance(1, 3) {
                    Step::Err(ErrKind::Interrupted)
                } else {
                    Step::Xfer(1 + r.below(8) as u32)
                }
            }
            _ => {
                if r.chance(1, 6) {
                    Step::Err(ErrKind::Interrupted)
                } else {
                    Step::Xfer(u32::MAX)
                }
            }
        })
        .collect();
    if fatal {
        let at = r.below(lane.len() as u64 + 1) as usize;
        lane.insert(at, Step::Err(*r.pick(&[ErrKind::TimedOut, ErrKind::WouldBlock, ErrKind::Other])));
    }
    (lane, mode, fatal)
}

/// How often the io lane is replayed (interrupt / short-write storms that last through long bodies).
fn io_repeat(io_seed: u64, cap: usize) -> u32 {
    let mut r = Rng::new(io_seed ^ (cap as u64).wrapping_mul(0x51ED_270B) ^ 0xABCD);
    *r.pick(&[0u32, 0, 0, 2, 8, 40])
}

fn run_encode(values: &[ValSpec], only_sink: Option<Sink>, only_cap: Option<u32>, io_seed: u64, obs: &Rc<RefCell<Obs>>) -> Result<(), Violation> {
    // reference: the unbounded sink, plus the internal write boundaries
    let mut rec = Rec { bytes: Vec::new(), cuts: Vec::new() };
    let mut per_value: Vec<usize> = Vec::new(); // number of internal writes of each value
    // a value may fail by itself after some output (its Encode impl returns an error of its own): what it wrote before stays
    // accepted, and the position must say so
    let mut self_fail: Vec<bool> = Vec::new();
    for v in values {
        let before = rec.cuts.len();
        self_fail.push(encode_all(std::slice::from_ref(v), &mut rec).is_err());
        per_value.push(rec.cuts.len() - before);
    }
    let any_self_fail = self_fail.iter().any(|f| *f);
    if any_self_fail && values.len() < 2 {
        // a lone value that the encoder itself refuses: not a statement about sinks
        return Ok(());
    }
    let reference = rec.bytes;
    let cuts = rec.cuts;
    let n = reference.len();
    let keep_going = values.len() >= 2;
    // the encoding of each value on its own (slices of the reference)
    let encodings: Vec<&[u8]> = {
        let mut out = Vec::new();
        let (mut w, mut start) = (0usize, 0usize);
        for &nw in &per_value {
            let end = if nw == 0 { start } else { cuts[w + nw - 1] };
            out.push(&reference[start..end]);
            start = end;
            w += nw;
        }
        out
    };
    // the convenience entry point for the growable sink, called right after a to_vec that failed part-way on this thread
    // (state that survives a failed call must not leak into the next result)
    if !any_self_fail {
        let _ = minicbor::to_vec(FailEncode { partial: 3 });
        let mut tv = Vec::new();
        for v in values {
            match to_vec_of(v) {
                Some(b) => tv.extend_from_slice(&b),
                None => fail!("fit_iff", "to_vec refused a value that the recording sink and a plain Vec accept"),
            }
        }
        if tv != reference {
            let d = tv.iter().zip(reference.iter()).position(|(a, b)| a != b).unwrap_or(tv.len().min(n));
            fail!("bytes_equal", "to_vec (after a failed to_vec on the same thread) differs from the recording sink at offset {d}: {} vs {} bytes", tv.len(), n);
        }
    }
    let mut vec_ref = Vec::new();
    let _ = encode_all(values, &mut vec_ref);
    if !any_self_fail && vec_ref != reference {
        fail!("bytes_equal", "Vec<u8> sink and the recording sink disagree on the encoding ({} vs {} bytes)", vec_ref.len(), n);
    }

    let caps: Vec<usize> = match only_cap {
        Some(c) => vec![c as usize],
        None if n <= EXHAUSTIVE_UPTO => (0..=n + 1).collect(),
        None => {
            let mut v = vec![0, 1, n - 1, n, n + 1];
            // every internal-write boundary +-1 would be too many for huge sequences; take those near the ends and a spread
            for (i, c) in cuts.iter().enumerate() {
                let spread = if n > 60_000 { i < 3 || i + 3 >= cuts.len() } else { i < 6 || i + 6 >= cuts.len() || i % (cuts.len() / 16 + 1) == 0 };
                if spread {
                    v.extend_from_slice(&[c.saturating_sub(1), *c, c + 1]);
                }
            }
            let mut r = Rng::new(io_seed ^ 0xC13);
            for _ in 0..(if n > 60_000 { 3 } else { 8 }) {
                v.push(r.below(n as u64 + 2) as usize);
            }
            v.sort_unstable();
            v.dedup();
            v.retain(|c| *c <= n + 1);
            v
        }
    };

    if keep_going && !any_self_fail && only_sink.map(|k| k == Sink::IoWriter).unwrap_or(true) {
        io_continued(values, &encodings, io_seed, obs)?;
    }
    for &c in &caps {
        {
            let mut o = obs.borrow_mut();
            if c == n {
                o.probe(pb::exact_fit_sink)
            }
            if c + 1 == n {
                o.probe(pb::one_short_sink)
            }
            if c == 0 {
                o.probe(pb::empty_sink_cap0)
            }
            if c < n && cuts.contains(&c) {
                o.probe(pb::internal_write_boundary_eq_capacity)
            }
        }
        for sink in SINKS {
            if only_sink.map(|s| s != sink).unwrap_or(false) {
                continue;
            }
            {
                let mut o = obs.borrow_mut();
                o.event(sink as u8 + 20, c as u64);
                if c < n && sink != Sink::VecSink {
                    o.fault(fk::sink_full);
                    o.nontrivial = true;
                }
                o.edge(64 + sink as u32, if c < n { 1 } else if c == n { 2 } else { 3 });
            }
            match sink {
                Sink::Slice => {
                    let mut backing = guarded(c);
                    let (result, accepted, tapped) = {
                        let mut sl: &mut [u8] = &mut backing[GUARD..GUARD + c];
                        let (r, t) = {
                            let mut tap = Tap::new(&mut sl);
                            let r = encode_all(values, &mut tap);
                            (r, tap.ok_bytes)
                        };
                        (r, c - sl.len(), t)
                    };
                    canaries_ok(&backing, c, sink.name())?;
                    judge_unless(any_self_fail, &Outcome { sink, cap: c, result, accepted, tapped: Some(tapped), device_error: false, content: &backing[GUARD..GUARD + c] }, &reference)?;
                    if keep_going {
                        let mut backing = guarded(c);
                        let (results, pos) = {
                            let mut sl: &mut [u8] = &mut backing[GUARD..GUARD + c];
                            let r = encode_each(values, &mut sl);
                            (r, c - sl.len())
                        };
                        canaries_ok(&backing, c, sink.name())?;
                        judge_continued(sink.name(), c, &results, pos, &backing[GUARD..GUARD + c], &continued_model(&reference, &cuts, &per_value, &self_fail, c))?;
                    }
                }
                Sink::SliceCursor => {
                    let mut backing = guarded(c);
                    let (result, accepted, tapped) = {
                        let mut cur = Cursor::new(&mut backing[GUARD..GUARD + c]);
                        let (r, t) = {
                            let mut tap = Tap::new(&mut cur);
                            let r = encode_all(values, &mut tap);
                            (r, tap.ok_bytes)
                        };
                        (r, cur.position(), t)
                    };
                    canaries_ok(&backing, c, sink.name())?;
                    judge_unless(any_self_fail, &Outcome { sink, cap: c, result, accepted, tapped: Some(tapped), device_error: false, content: &backing[GUARD..GUARD + c] }, &reference)?;
                    if keep_going {
                        let mut backing = guarded(c);
                        let (results, pos) = {
                            let mut cur = Cursor::new(&mut backing[GUARD..GUARD + c]);
                            let r = encode_each(values, &mut cur);
                            (r, cur.position())
                        };
                        canaries_ok(&backing, c, sink.name())?;
                        judge_continued(sink.name(), c, &results, pos, &backing[GUARD..GUARD + c], &continued_model(&reference, &cuts, &per_value, &self_fail, c))?;
                    }
                }
                Sink::ArrayCursor => {
                    let mut f = |w: &mut dyn ArrCur| {
                        let (r, t) = {
                            let mut tap = Tap::new(&mut *w);
                            let r = encode_all(values, &mut tap);
                            (r, tap.ok_bytes)
                        };
                        (r, w.pos(), t, w.bytes().to_vec())
                    };
                    if let Some((result, accepted, tapped, bytes)) = array_sink(c, &mut f) {
                        judge_unless(any_self_fail, &Outcome { sink, cap: c, result, accepted, tapped: Some(tapped), device_error: false, content: &bytes }, &reference)?;
                    }
                    if keep_going {
                        let mut g = |w: &mut dyn ArrCur| {
                            let r = encode_each(values, &mut *w);
                            (r, w.pos(), w.bytes().to_vec())
                        };
                        if let Some((results, pos, bytes)) = array_sink(c, &mut g) {
                            judge_continued(sink.name(), c, &results, pos, &bytes, &continued_model(&reference, &cuts, &per_value, &self_fail, c))?;
                        }
                    }
                    // and the monomorphic path (no dyn, no tap) for two fixed sizes
                    if c == 16 {
                        let mut cur = Cursor::new([PATTERN; 16]);
                        let result = encode_all(values, &mut cur);
                        let accepted = cur.position();
                        judge_unless(any_self_fail, &Outcome { sink, cap: c, result, accepted, tapped: None, device_error: false, content: &cur.get_ref()[..] }, &reference)?;
                    }
                    if c == 64 {
                        let mut cur = Cursor::new([PATTERN; 64]);
                        let result = encode_all(values, &mut cur);
                        let accepted = cur.position();
                        judge_unless(any_self_fail, &Outcome { sink, cap: c, result, accepted, tapped: None, device_error: false, content: &cur.get_ref()[..] }, &reference)?;
                    }
                }
                Sink::BoxCursor => {
                    let mut cur = Cursor::new(vec![PATTERN; c].into_boxed_slice());
                    let (result, tapped) = {
                        let mut tap = Tap::new(&mut cur);
                        let r = encode_all(values, &mut tap);
                        (r, tap.ok_bytes)
                    };
                    let accepted = cur.position();
                    let inner = cur.into_inner();
                    if inner.len() != c {
                        fail!("no_overrun", "box_cursor cap={c}: the boxed slice changed length to {}", inner.len());
                    }
                    judge_unless(any_self_fail, &Outcome { sink, cap: c, result, accepted, tapped: Some(tapped), device_error: false, content: &inner }, &reference)?;
                    if keep_going {
                        let mut cur = Cursor::new(vec![PATTERN; c].into_boxed_slice());
                        let results = encode_each(values, &mut cur);
                        let pos = cur.position();
                        let inner = cur.into_inner();
                        judge_continued(sink.name(), c, &results, pos, &inner, &continued_model(&reference, &cuts, &per_value, &self_fail, c))?;
                        if !any_self_fail {
                            packetize(values, c, &encodings)?;
                        }
                    }
                }
                Sink::VecSink | Sink::IoWriter if any_self_fail => {}
                Sink::VecSink => {
                    // growable: never fails; pre-existing content must be kept and the encoding appended
                    let mut v = vec![PATTERN; c.min(64)];
                    let pre = v.len();
                    let result = encode_all(values, &mut v);
                    if result.is_err() {
                        fail!("fit_iff", "vec: a growable vector refused the encoding");
                    }
                    if v.len() != pre + n || v[..pre].iter().any(|b| *b != PATTERN) || v[pre..] != reference[..] {
                        fail!("bytes_equal", "vec with {pre} bytes of prior content: content is not prior ++ encoding");
                    }
                    // recycled vectors: spare capacity of every scale relative to the encoding (the capacity plays the part
                    // of "c" here), through one Encoder
                    let variants = if n > EXHAUSTIVE_UPTO { 0..4 } else { c % 4..c % 4 + 1 };
                    for variant in variants {
                        let spare = match variant {
                            0 => c,
                            1 => n / 2 + c,
                            2 => 65_537 + c % 4096,
                            _ => n + c,
                        };
                        let mut v: Vec<u8> = Vec::with_capacity(pre + spare);
                        v.resize(pre, PATTERN);
                        let results = encode_each(values, &mut v);
                        if results.iter().any(|r| r.is_err()) {
                            fail!("fit_iff", "vec with {spare} bytes of spare capacity: a growable vector refused the encoding");
                        }
                        if v.len() != pre + n || v[..pre].iter().any(|b| *b != PATTERN) || v[pre..] != reference[..] {
                            fail!("bytes_equal", "vec with {pre} bytes of prior content and {spare} spare: content is not prior ++ encoding");
                        }
                    }
                }
                Sink::IoWriter => {
                    let (lane, mode, fatal) = io_lane(io_seed, c);
                    let repeat = io_repeat(io_seed, c);
                    let budget = lane.len() as u64 * (1 + repeat as u64) + 2 * cuts.len() as u64 + n as u64 + 16;
                    let core = SinkCore::new(lane, Some(c), budget, obs.clone());
                    core.borrow_mut().repeat_left = repeat;
                    core.borrow_mut().full_mode = mode;
                    core.borrow_mut().allow_fatal = fatal;
                    let mut w = Writer::new(SimSink(core.clone()));
                    let result = encode_all(values, &mut w);
                    let core = core.borrow();
                    if core.cap_hit {
                        fail!("progress", "io_writer cap={c}: sink call cap exceeded");
                    }
                    if core.data.len() > c {
                        fail!("no_overrun", "io_writer cap={c}: the device holds {} bytes", core.data.len());
                    }
                    let device_error = core.fatal_served.is_some();
                    let had_eintr = core.served_err[ErrKind::Interrupted.idx()] > 0;
                    if let Err(e) = &result {
                        if n <= c && !device_error {
                            fail!(
                                if had_eintr { "eintr_transparent" } else { "short_write_safe" },
                                "io_writer cap={c}: {n} bytes fit but encoding failed ({}) under short writes / EINTR",
                                e.msg
                            );
                        }
                    }
                    judge_unless(any_self_fail, &Outcome { sink, cap: c, result, accepted: core.data.len(), tapped: None, device_error, content: &core.data }, &reference)?;
                }
            }
        }
    }
    Ok(())
}

fn run_regrow(cap: usize, new_cap: usize, at: usize, writes: &[u32], obs: &Rc<RefCell<Obs>>) -> Result<(), Violation> {
    let new_cap = new_cap.max(cap);
    let mut cur = Cursor::new(vec![PATTERN; cap].into_boxed_slice());
    let mut model: Vec<u8> = Vec::new();
    let mut room = cap;
    for (i, l) in writes.iter().enumerate() {
        if i == at {
            let bigger = {
                let old = cur.get_ref();
                let mut b = vec![PATTERN; new_cap];
                b[..old.len()].copy_from_slice(old);
                b.into_boxed_slice()
            };
            *cur.get_mut() = bigger;
            room = new_cap;
            obs.borrow_mut().event(27, new_cap as u64);
        }
        let buf = vec![(i as u8).wrapping_add(1); *l as usize];
        let ok = cur.write_all(&buf).is_ok();
        let fits = model.len() + buf.len() <= room;
        obs.borrow_mut().event(if ok { 1 } else { 2 }, *l as u64);
        if !fits {
            obs.borrow_mut().fault(fk::sink_full);
            obs.borrow_mut().nontrivial = true;
        }
        if ok != fits {
            fail!("raw_write_model", "box_cursor cap={cap} (buffer exchanged for {new_cap} bytes before write #{at}): write_all #{i} of {l} bytes at position {} returned {}", model.len(), if ok { "Ok" } else { "Err" });
        }
        if fits {
            model.extend_from_slice(&buf);
        }
        if cur.position() != model.len() {
            fail!("raw_write_model", "box_cursor cap={cap} (buffer exchanged): after write_all #{i} position is {}, accepted bytes are {}", cur.position(), model.len());
        }
        if cur.get_ref()[..model.len()] != model[..] {
            fail!("raw_write_model", "box_cursor cap={cap} (buffer exchanged): after write_all #{i} the accepted bytes were altered");
        }
    }
    Ok(())
}

/// The same raw history on a `Cursor<[u8; N]>` that is MOVED between the writes (into a box, back onto the stack): the
/// array lives inside the cursor, so its address changes, which nothing may depend on.
fn run_raw_moving<const N: usize>(writes: &[u32]) -> Result<(), Violation> {
    let mut model: Vec<u8> = Vec::new();
    let mut cur = Cursor::new([PATTERN; N]);
    for (i, l) in writes.iter().enumerate() {
        let buf = vec![(i as u8).wrapping_add(1); *l as usize];
        let fits = model.len() + buf.len() <= N;
        let ok;
        if i % 2 == 0 {
            let mut boxed = Box::new(cur);
            ok = boxed.write_all(&buf).is_ok();
            cur = *boxed;
        } else {
            // on the stack (a freed box could be handed out again at the same address; stack and heap never coincide)
            let mut local = std::hint::black_box(cur);
            ok = local.write_all(&buf).is_ok();
            cur = local;
        }
        if ok != fits {
            fail!("raw_write_model", "array_cursor cap={N} (cursor moved between writes): write_all #{i} of {l} bytes at position {} returned {}", model.len(), if ok { "Ok" } else { "Err" });
        }
        if fits {
            model.extend_from_slice(&buf);
        }
        if cur.position() != model.len() {
            fail!("raw_write_model", "array_cursor cap={N} (cursor moved between writes): after write_all #{i} position is {}, accepted bytes are {}", cur.position(), model.len());
        }
        if cur.get_ref()[..model.len()] != model[..] {
            fail!("raw_write_model", "array_cursor cap={N} (cursor moved between writes): after write_all #{i} the accepted bytes were altered");
        }
    }
    Ok(())
}

fn run_endless(cap: usize, obs: &Rc<RefCell<Obs>>) -> Result<(), Violation> {
    let expect: Vec<u8> = std::iter::once(0x9f).chain(std::iter::repeat(7)).take(cap).collect();
    let check = |k: &str, r: Result<(), ErrInfo>, pos: usize, content: &[u8]| -> Result<(), Violation> {
        match r {
            Ok(()) => fail!("fit_iff", "{k} cap={cap}: an endless value reported success"),
            Err(e) if !e.is_write => fail!("err_is_write", "{k} cap={cap}: endless value: the failure is not a write error ({})", e.msg),
            Err(_) => {}
        }
        if pos != cap || content[..cap] != expect[..] {
            fail!("prefix_left", "{k} cap={cap}: endless value: position {pos}, content is not the first {cap} bytes of the encoding");
        }
        Ok(())
    };
    let enc = |sink: &mut dyn FnMut(&minicbor::encode::ArrayIter<std::iter::Repeat<u8>>) -> Result<(), ErrInfo>| sink(&minicbor::encode::ArrayIter::new(std::iter::repeat(7u8)));
    obs.borrow_mut().event(28, cap as u64);
    {
        let mut backing = guarded(cap);
        let (r, pos) = {
            let mut sl: &mut [u8] = &mut backing[GUARD..GUARD + cap];
            let r = enc(&mut |v| minicbor::encode(v, &mut sl).map_err(|e| ErrInfo { is_write: e.is_write(), msg: e.to_string_lossy() }));
            (r, cap - sl.len())
        };
        canaries_ok(&backing, cap, "slice")?;
        check("slice", r, pos, &backing[GUARD..GUARD + cap])?;
    }
    {
        let mut cur = Cursor::new(vec![PATTERN; cap].into_boxed_slice());
        let r = enc(&mut |v| minicbor::encode(v, &mut cur).map_err(|e| ErrInfo { is_write: e.is_write(), msg: e.to_string_lossy() }));
        let pos = cur.position();
        check("box_cursor", r, pos, &cur.into_inner())?;
    }
    {
        let core = SinkCore::new(Vec::new(), Some(cap), 4 * cap as u64 + 64, obs.clone());
        let mut w = Writer::new(SimSink(core.clone()));
        let r = enc(&mut |v| minicbor::encode(v, &mut w).map_err(|e| ErrInfo { is_write: e.is_write(), msg: e.to_string_lossy() }));
        let c = core.borrow();
        if c.cap_hit {
            fail!("progress", "io_writer cap={cap}: endless value: the device kept being called after it was full");
        }
        check("io_writer", r, c.data.len(), &c.data)?;
    }
    Ok(())
}

/// A device with unlimited room that counts what it is given and keeps nothing.
struct CountingDevice {
    taken: u64,
    piece: usize,
}

impl std::io::Write for CountingDevice {
    fn write(&mut self, buf: &[u8]) -> std::io::Result<usize> {
        let n = if self.piece == 0 { buf.len() } else { buf.len().min(self.piece) };
        self.taken += n as u64;
        Ok(n)
    }
    fn flush(&mut self) -> std::io::Result<()> {
        Ok(())
    }
}

fn run_stream(chunk: usize, count: u32, piece: usize, obs: &Rc<RefCell<Obs>>) -> Result<(), Violation> {
    let body = vec![0x42u8; chunk];
    let item_len = head_len(chunk as u64) + chunk as u64;
    let mut enc = minicbor::Encoder::new(Writer::new(CountingDevice { taken: 0, piece }));
    let mut expected = 0u64;
    for i in 0..count {
        obs.borrow_mut().event(26, i as u64);
        match enc.bytes(&body) {
            Ok(_) => {}
            Err(e) => fail!(
                "fit_iff",
                "io_writer stream: item #{i} ({chunk} bytes) was refused ({}) after {} bytes although the device accepts everything",
                if e.is_write() { "write error" } else { "other error" },
                enc.writer().get_ref().taken
            ),
        }
        expected += item_len;
        let taken = enc.writer().get_ref().taken;
        if taken != expected {
            fail!("bytes_equal", "io_writer stream: after item #{i} the device has been given {taken} bytes, the encodings so far have {expected}");
        }
    }
    if expected > u32::MAX as u64 {
        obs.borrow_mut().probe(pb::stream_beyond_4gib);
    }
    Ok(())
}

/// Length of a CBOR head with argument `n`.
fn head_len(n: u64) -> u64 {
    match n {
        0..=23 => 1,
        24..=0xff => 2,
        0x100..=0xffff => 3,
        0x1_0000..=0xffff_ffff => 5,
        _ => 9,
    }
}

fn run_raw(sink: Sink, cap: usize, writes: &[u32], obs: &Rc<RefCell<Obs>>) -> Result<(), Violation> {
    // model: pos += n iff pos + n <= cap; bytes below pos are exactly what was accepted
    let k = sink.name();
    let mut model: Vec<u8> = Vec::new();
    let bufs: Vec<Vec<u8>> = writes.iter().enumerate().map(|(i, l)| vec![(i as u8).wrapping_add(1); *l as usize]).collect();
    let mut backing = guarded(cap);

    let mut step = |i: usize, ok: bool, pos: usize, content: &[u8], model: &mut Vec<u8>| -> Result<(), Violation> {
        let l = bufs[i].len();
        let fits = model.len() + l <= cap;
        {
            let mut o = obs.borrow_mut();
            o.event(if ok { 1 } else { 2 }, l as u64);
            o.edge(80 + sink as u32, if fits { 1 } else { 2 } + if l == 0 { 2 } else { 0 });
            if !fits {
                o.fault(fk::sink_full);
                o.nontrivial = true;
            }
            if model.len() + l == cap {
                o.probe(pb::exact_fit_sink)
            }
            if model.len() + l == cap + 1 {
                o.probe(pb::one_short_sink)
            }
        }
        if ok != fits {
            fail!("raw_write_model", "{k} cap={cap}: write_all #{i} of {l} bytes at position {} returned {}", model.len(), if ok { "Ok" } else { "Err" });
        }
        if fits {
            model.extend_from_slice(&bufs[i]);
        }
        if pos != model.len() {
            fail!("raw_write_model", "{k} cap={cap}: after write_all #{i} ({l} bytes, {}) position is {pos}, accepted bytes are {}", if ok { "Ok" } else { "Err" }, model.len());
        }
        if content.len() < pos || content[..pos] != model[..] {
            fail!("raw_write_model", "{k} cap={cap}: after write_all #{i} the accepted bytes were altered");
        }
        Ok(())
    };

    match sink {
        Sink::Slice => {
            let mut sl: &mut [u8] = &mut backing[GUARD..GUARD + cap];
            let mut results = Vec::new();
            for b in &bufs {
                let ok = sl.write_all(b).is_ok();
                results.push((ok, cap - sl.len()));
            }
            let _ = sl;
            for (i, (ok, pos)) in results.into_iter().enumerate() {
                // content check only at the end for the plain slice (it is consumed as it is written)
                let content = &backing[GUARD..GUARD + cap];
                let _ = content;
                step(i, ok, pos, &vec_prefix(&bufs, i, cap), &mut model)?;
            }
            if backing[GUARD..GUARD + model.len()] != model[..] {
                fail!("raw_write_model", "slice cap={cap}: accepted bytes differ from the model at the end");
            }
        }
        Sink::SliceCursor => {
            let mut cur = Cursor::new(&mut backing[GUARD..GUARD + cap]);
            for (i, b) in bufs.iter().enumerate() {
                let ok = cur.write_all(b).is_ok();
                let pos = cur.position();
                let content = cur.get_ref()[..pos.min(cap)].to_vec();
                step(i, ok, pos, &content, &mut model)?;
            }
        }
        Sink::BoxCursor => {
            let mut cur = Cursor::new(vec![PATTERN; cap].into_boxed_slice());
            for (i, b) in bufs.iter().enumerate() {
                let ok = cur.write_all(b).is_ok();
                let pos = cur.position();
                let content = cur.get_ref()[..pos.min(cap)].to_vec();
                step(i, ok, pos, &content, &mut model)?;
            }
        }
        Sink::ArrayCursor => {
            let mut f = |w: &mut dyn ArrCur| -> Result<(), Violation> {
                for (i, b) in bufs.iter().enumerate() {
                    let ok = w.write_all(b).is_ok();
                    let pos = w.pos();
                    let content = w.bytes()[..pos.min(cap)].to_vec();
                    step(i, ok, pos, &content, &mut model)?;
                }
                Ok(())
            };
            if let Some(r) = array_sink(cap, &mut f) {
                r?;
            }
            match cap {
                3 => run_raw_moving::<3>(writes)?,
                6 => run_raw_moving::<6>(writes)?,
                16 => run_raw_moving::<16>(writes)?,
                64 => run_raw_moving::<64>(writes)?,
                _ => {}
            }
        }
        Sink::IoWriter => {
            // the io adapter over a device with `cap` bytes of room: a write_all succeeds iff everything offered so far fits;
            // a failing one leaves the device full (it takes what fits); an EMPTY write_all always succeeds and never
            // reaches the device as an error
            let budget = 4 * bufs.len() as u64 + 2 * cap as u64 + 64;
            let core = SinkCore::new(Vec::new(), Some(cap), budget, obs.clone());
            core.borrow_mut().full_mode = if writes.len() % 2 == 0 { FullMode::Error } else { FullMode::Zero };
            let mut w = Writer::new(SimSink(core.clone()));
            let mut stream: Vec<u8> = Vec::new();
            let mut taken = 0usize;
            for (i, b) in bufs.iter().enumerate() {
                let ok = w.write_all(b).is_ok();
                let fits = taken + b.len() <= cap;
                stream.extend_from_slice(b);
                if ok != fits {
                    fail!("raw_write_model", "io_writer cap={cap}: write_all #{i} of {} bytes with {} bytes of room left returned {}", b.len(), cap - taken, if ok { "Ok" } else { "Err" });
                }
                if fits {
                    taken += b.len();
                } else {
                    // the device took what fitted of this and every later buffer's stream position is gone: stop here
                    let c = core.borrow();
                    if c.data.len() > cap || c.data[..] != stream[..c.data.len()] {
                        fail!("raw_write_model", "io_writer cap={cap}: after the failed write_all #{i} the device content is not a prefix of what was written");
                    }
                    break;
                }
                let c = core.borrow();
                if c.data[..] != stream[..] {
                    fail!("raw_write_model", "io_writer cap={cap}: after write_all #{i} the device content differs from what was written");
                }
            }
        }
        _ => {}
    }
    canaries_ok(&backing, cap, k)?;
    Ok(())
}

/// For the plain slice sink: the bytes accepted up to and including write #i according to the model.
fn vec_prefix(bufs: &[Vec<u8>], i: usize, cap: usize) -> Vec<u8> {
    let mut m = Vec::new();
    for b in &bufs[..=i] {
        if m.len() + b.len() <= cap {
            m.extend_from_slice(b);
        }
    }
    m
}

impl Scenario for C13 {
    fn to_json(&self) -> Json {
        match self {
            C13::Encode { values, sink, cap, io_seed } => Json::obj()
                .set("kind", "encode")
                .set("values", Json::Arr(values.iter().map(|v| v.to_json()).collect()))
                .set("sink", sink.map(|s| s.name()))
                .set("cap", *cap)
                .set("io_seed", *io_seed),
            C13::Regrow { cap, new_cap, at, writes } => Json::obj()
                .set("kind", "regrow")
                .set("cap", *cap)
                .set("new_cap", *new_cap)
                .set("at", *at)
                .set("writes", Json::Arr(writes.iter().map(|w| Json::from(*w)).collect())),
            C13::Endless { cap } => Json::obj().set("kind", "endless").set("cap", *cap),
            C13::Stream { chunk, count, piece } => Json::obj().set("kind", "stream").set("chunk", *chunk).set("count", *count).set("piece", *piece),
            C13::Raw { sink, cap, writes } => {
                Json::obj().set("kind", "raw").set("sink", sink.name()).set("cap", *cap).set("writes", Json::Arr(writes.iter().map(|w| Json::from(*w)).collect()))
            }
        }
    }
    fn from_json(j: &Json) -> Result<Self, String> {
        match j.get("kind").and_then(|k| k.as_str()) {
            Some("encode") => Ok(C13::Encode {
                values: j.get("values").and_then(|v| v.as_arr()).ok_or("values")?.iter().map(ValSpec::from_json).collect::<Result<_, _>>()?,
                sink: j.get("sink").and_then(|s| s.as_str()).and_then(Sink::parse),
                cap: j.get("cap").and_then(|c| c.as_u64()).map(|c| c as u32),
                io_seed: j.get("io_seed").and_then(|c| c.as_u64()).unwrap_or(0),
            }),
            Some("regrow") => Ok(C13::Regrow {
                cap: j.get("cap").and_then(|c| c.as_u64()).ok_or("cap")? as u32,
                new_cap: j.get("new_cap").and_then(|c| c.as_u64()).ok_or("new_cap")? as u32,
                at: j.get("at").and_then(|c| c.as_u64()).ok_or("at")? as u32,
                writes: j.get("writes").and_then(|v| v.as_arr()).ok_or("writes")?.iter().map(|w| w.as_u64().map(|x| x as u32).ok_or("write")).collect::<Result<_, _>>()?,
            }),
            Some("endless") => Ok(C13::Endless { cap: j.get("cap").and_then(|c| c.as_u64()).ok_or("cap")? as u32 }),
            Some("stream") => Ok(C13::Stream {
                chunk: j.get("chunk").and_then(|c| c.as_u64()).ok_or("chunk")? as u32,
                count: j.get("count").and_then(|c| c.as_u64()).ok_or("count")? as u32,
                piece: j.get("piece").and_then(|c| c.as_u64()).unwrap_or(0) as u32,
            }),
            Some("raw") => Ok(C13::Raw {
                sink: j.get("sink").and_then(|s| s.as_str()).and_then(Sink::parse).ok_or("sink")?,
                cap: j.get("cap").and_then(|c| c.as_u64()).ok_or("cap")? as u32,
                writes: j.get("writes").and_then(|v| v.as_arr()).ok_or("writes")?.iter().map(|w| w.as_u64().map(|x| x as u32).ok_or("write")).collect::<Result<_, _>>()?,
            }),
            _ => Err("kind".into()),
        }
    }
    fn run(&self, obs: &mut Obs) -> Result<(), Violation> {
        let shared = Rc::new(RefCell::new(Obs::new()));
        let r = match self {
            C13::Encode { values, sink, cap, io_seed } => run_encode(values, *sink, *cap, *io_seed, &shared)
                .map_err(|v| v.key(format!("types={}", values.iter().map(|v| v.ty.name()).collect::<Vec<_>>().join("+")))),
            C13::Raw { sink, cap, writes } => run_raw(*sink, *cap as usize, writes, &shared).map_err(|v| v.key(format!("raw sink={}", sink.name()))),
            C13::Regrow { cap, new_cap, at, writes } => run_regrow(*cap as usize, *new_cap as usize, *at as usize, writes, &shared).map_err(|v| v.key("regrow".to_string())),
            C13::Endless { cap } => run_endless(*cap as usize, &shared).map_err(|v| v.key("endless".to_string())),
            C13::Stream { chunk, count, piece } => run_stream(*chunk as usize, *count, *piece as usize, &shared).map_err(|v| v.key("stream".to_string())),
        };
        *obs = shared.replace(Obs::new());
        r
    }
    fn shrink(&self) -> Vec<Self> {
        let mut out = Vec::new();
        match self {
            C13::Encode { values, sink, cap, io_seed } => {
                // first pin the sink kind and capacity that fail
                if sink.is_none() {
                    for s in SINKS {
                        out.push(C13::Encode { values: values.clone(), sink: Some(s), cap: *cap, io_seed: *io_seed });
                    }
                }
                if cap.is_none() {
                    let n: usize = values.iter().filter_map(reference_encoding).map(|p| p.len()).sum();
                    let mut caps: Vec<usize> = vec![0, n, n.saturating_sub(1), n + 1, 1];
                    caps.extend(0..=(n + 1).min(EXHAUSTIVE_UPTO + 1));
                    for c in caps {
                        out.push(C13::Encode { values: values.clone(), sink: *sink, cap: Some(c as u32), io_seed: *io_seed });
                    }
                }
                if values.len() > 1 {
                    for i in 0..values.len() {
                        let mut v = values.clone();
                        v.remove(i);
                        out.push(C13::Encode { values: v, sink: *sink, cap: None, io_seed: *io_seed });
                        let mut v = values.clone();
                        v.remove(i);
                        out.push(C13::Encode { values: v, sink: *sink, cap: *cap, io_seed: *io_seed });
                    }
                }
                for (i, v) in values.iter().enumerate() {
                    for sv in v.shrink() {
                        let mut vs = values.clone();
                        vs[i] = sv;
                        // capacity is relative to the encoding length, so search it again
                        out.push(C13::Encode { values: vs.clone(), sink: *sink, cap: None, io_seed: *io_seed });
                        out.push(C13::Encode { values: vs, sink: *sink, cap: *cap, io_seed: *io_seed });
                    }
                }
                if *io_seed != 0 {
                    out.push(C13::Encode { values: values.clone(), sink: *sink, cap: *cap, io_seed: 0 });
                }
            }
            C13::Regrow { cap, new_cap, at, writes } => {
                crate::c15::shrink_vec(writes, |w| out.push(C13::Regrow { cap: *cap, new_cap: *new_cap, at: (*at).min(w.len() as u32), writes: w }));
                for (i, w) in writes.iter().enumerate() {
                    if *w > 0 {
                        let mut ws = writes.clone();
                        ws[i] = w - 1;
                        out.push(C13::Regrow { cap: *cap, new_cap: *new_cap, at: *at, writes: ws });
                    }
                }
                if *new_cap > *cap {
                    out.push(C13::Regrow { cap: *cap, new_cap: new_cap - 1, at: *at, writes: writes.clone() });
                }
                if *cap > 0 {
                    out.push(C13::Regrow { cap: cap - 1, new_cap: *new_cap, at: *at, writes: writes.clone() });
                }
            }
            C13::Endless { cap } => {
                if *cap > 0 {
                    out.push(C13::Endless { cap: cap - 1 });
                }
            }
            C13::Stream { chunk, count, piece } => {
                if *count > 1 {
                    out.push(C13::Stream { chunk: *chunk, count: count / 2, piece: *piece });
                    out.push(C13::Stream { chunk: *chunk, count: count - 1, piece: *piece });
                }
                if *piece != 0 {
                    out.push(C13::Stream { chunk: *chunk, count: *count, piece: 0 });
                }
            }
            C13::Raw { sink, cap, writes } => {
                crate::c15::shrink_vec(writes, |w| out.push(C13::Raw { sink: *sink, cap: *cap, writes: w }));
                for (i, w) in writes.iter().enumerate() {
                    if *w > 0 {
                        let mut ws = writes.clone();
                        ws[i] = w - 1;
                        out.push(C13::Raw { sink: *sink, cap: *cap, writes: ws });
                    }
                }
                if *cap > 0 && array_cap_supported(*cap as usize - 1) {
                    out.push(C13::Raw { sink: *sink, cap: cap - 1, writes: writes.clone() });
                }
            }
        }
        out
    }
}

pub struct P13;

impl Property for P13 {
    type S = C13;
    const ID: &'static str = "C13";
    const LEVEL: &'static str = "fault_enumeration";

    fn sweeps(tier: Tier) -> Vec<C13> {
        let mut out = Vec::new();
        // every value type at a few fixed sizes (seed-independent floor), all capacities, all sinks
        let sizes: &[u32] = if tier == Tier::Quick { &[0, 1, 23, 24, 255, 256] } else { &[0, 1, 2, 22, 23, 24, 25, 100, 254, 255, 256, 257, 300] };
        for &ty in ALL_TYS {
            for &size in sizes {
                for seed in 0..3u64 {
                    out.push(C13::Encode { values: vec![ValSpec { ty, size, seed: 9000 + seed }], sink: None, cap: None, io_seed: seed });
                }
            }
        }
        // an endless value: the bounded sink has to stop it
        for cap in [0u32, 1, 2, 3, 7, 64, 1000] {
            out.push(C13::Endless { cap });
        }
        // a boxed cursor whose buffer is exchanged for a larger one after the first / second write
        for cap in 0..=5u32 {
            for extra in 1..=3u32 {
                for a in 0..=cap + 1 {
                    for b in 0..=cap + extra + 1 {
                        out.push(C13::Regrow { cap, new_cap: cap + extra, at: 1, writes: vec![a, b] });
                        out.push(C13::Regrow { cap, new_cap: cap + extra, at: 2, writes: vec![a, 1, b] });
                    }
                }
            }
        }
        // more than 4 GiB through one io adapter (the device only counts): cumulative 32-bit byte counters
        out.push(C13::Stream { chunk: 32 << 20, count: 130, piece: 0 });
        out.push(C13::Stream { chunk: (1 << 20) + 1, count: 4100, piece: 65_536 });
        out.push(C13::Stream { chunk: 1000, count: 70_000, piece: 0 });
        // one fixed long history on one Encoder (300 small integers): counters per call on the encoder
        out.push(C13::Encode { values: (0..300u64).map(|i| ValSpec { ty: if i % 2 == 0 { Ty::U16 } else { Ty::Str }, size: (i % 3) as u32, seed: i }).collect(), sink: None, cap: None, io_seed: 5 });
        // raw histories: every (cap, single write length 0..=cap+1) and every pair, for small caps
        for sink in [Sink::Slice, Sink::SliceCursor, Sink::ArrayCursor, Sink::BoxCursor, Sink::IoWriter] {
            for cap in 0..=6u32 {
                for a in 0..=cap + 1 {
                    out.push(C13::Raw { sink, cap, writes: vec![a] });
                    for b in 0..=cap + 1 {
                        out.push(C13::Raw { sink, cap, writes: vec![a, b] });
                        for c in 0..=cap + 1 {
                            out.push(C13::Raw { sink, cap, writes: vec![a, b, c] });
                        }
                    }
                }
            }
        }
        out
    }

    fn random_runs(tier: Tier) -> u64 {
        match tier {
            Tier::Quick => 60_000,
            Tier::Thorough => 3_000_000,
        }
    }

    fn generate(r: &mut Rng, tier: Tier) -> C13 {
        if r.chance(1, 40) {
            let cap = r.below(120) as u32;
            let n = r.usize_in(2, 10);
            let new_cap = cap + 1 + r.below(120) as u32;
            let writes = (0..n).map(|_| match r.below(3) { 0 => r.below(4) as u32, 1 => r.below(new_cap as u64 + 2) as u32, _ => (new_cap / n as u32) + r.below(3) as u32 }).collect();
            return C13::Regrow { cap, new_cap, at: r.below(n as u64 + 1) as u32, writes };
        }
        if r.chance(1, 5) {
            let sink = *r.pick(&[Sink::Slice, Sink::SliceCursor, Sink::ArrayCursor, Sink::BoxCursor, Sink::IoWriter]);
            let cap = if sink == Sink::ArrayCursor { r.below(73) as u32 } else { r.below(200) as u32 };
            let n = r.usize_in(1, 12);
            let writes = (0..n)
                .map(|_| match r.below(4) {
                    0 => 0,
                    1 => r.below(cap as u64 + 2) as u32,
                    2 => r.below(4) as u32,
                    _ => (cap / (n as u32).max(1)) + r.below(3) as u32,
                })
                .collect();
            return C13::Raw { sink, cap, writes };
        }
        // genuinely large items (one internal write of 64 KiB and more): few, because each costs as much as thousands of small ones
        if r.chance(1, if tier == Tier::Thorough { 600 } else { 1500 }) {
            let mut values = vec![ValSpec { ty: *r.pick(BYTEY_TYS), size: gen_big_size(r), seed: r.next_u64() }];
            match r.below(4) {
                0 => values.insert(0, gen_spec(r, ALL_TYS, false)),
                1 => values.push(gen_spec(r, ALL_TYS, false)),
                2 => {
                    values.push(ValSpec { ty: *r.pick(BYTEY_TYS), size: gen_big_size(r), seed: r.next_u64() });
                    values.push(ValSpec { ty: *r.pick(BYTEY_TYS), size: gen_big_size(r), seed: r.next_u64() });
                }
                _ => {}
            }
            return C13::Encode { values, sink: None, cap: None, io_seed: r.next_u64() };
        }
        // a long history on ONE Encoder: hundreds of tiny values, most of them refused at the small capacities (state that
        // accumulates per failed or per successful call on the encoder)
        if r.chance(1, if tier == Tier::Thorough { 600 } else { 1500 }) {
            let k = r.range(260, 420) as usize;
            let values = (0..k).map(|_| ValSpec { ty: *r.pick(ALL_TYS), size: r.below(3) as u32, seed: r.next_u64() }).collect();
            return C13::Encode { values, sink: None, cap: None, io_seed: r.next_u64() };
        }
        let big = tier == Tier::Thorough && r.chance(1, 200);
        let nvals = if big { 1 } else { *r.pick(&[1usize, 1, 2, 2, 3, 4]) };
        let values = (0..nvals).map(|_| gen_spec(r, ALL_TYS, big)).collect();
        C13::Encode { values, sink: None, cap: None, io_seed: r.next_u64() }
    }

    fn probes() -> Vec<usize> {
        vec![pb::exact_fit_sink, pb::one_short_sink, pb::empty_sink_cap0, pb::internal_write_boundary_eq_capacity, pb::stream_beyond_4gib]
    }

    fn rule() -> &'static str {
        "each evaluation is one value sequence (1-4 values of 57 types: all integer widths at head boundaries, floats, strings/bytes \
         around 0/23/24/255/256(/65535/65536) bytes, Option/Result, tuples, arrays, Vec, BTreeMap, Duration, IP/socket addresses, Int, \
         Tagged, token sequences, derive-generated structs/enums in array/map/index_only/transparent/borrowed/tagged forms, raw Encoder \
         call sequences incl. indefinite containers) encoded through one Encoder into EVERY sink kind at EVERY capacity 0..=len+1 \
         (len <= 320; selected capacities incl. internal write boundaries +-1 beyond; a few sequences per run contain 64-200 KiB strings); \
         sequences of >= 2 values are additionally run through ONE Encoder and continued past failures against the bounded-buffer model \
         applied to the encoder's recorded internal writes; Vec sinks also presized with spare capacity of every scale; or one raw write_all history (<= 12 calls, \
         lengths 0..=cap+1) against the bounded-buffer model; sweeps: every type x fixed sizes, and all raw histories of <= 3 calls for \
         cap <= 6. Non-trivial = at least one (sink, capacity) pair in which the sink refused bytes; distinct = distinct hash of the \
         executed (sink, capacity, outcome) trace."
    }

    fn assumptions() -> Vec<&'static str> {
        vec![
            "reference bytes are the library's own unbounded encoding (Vec / recording sink); C13 is about sinks, not RFC correctness",
            "values the encoder itself refuses (message errors) are skipped: the property is about sinks",
            "after a failure the position must equal the sum of the leading internal writes that fit (shipped bounded sinks are all-or-nothing per write_all); bytes of the sink beyond the position are not constrained",
            "Cursor<[u8; N]> is exercised for N in 0..=72 and 22 larger sizes (capacity is a compile-time constant)",
            "the code under test contains no unsafe, so a write outside the sink can only show as a panic or a canary hit",
        ]
    }

    fn real_components() -> Vec<&'static str> {
        vec![
            "minicbor::encode, Encoder (all methods via EncOps/Token sequences), all Encode impls of the workload types, derive-generated encoders",
            "encode::write impls: &mut [u8], Cursor<&mut [u8]>, Cursor<[u8; N]>, Cursor<Box<[u8]>>, Vec<u8>, Writer<W: io::Write>, &mut W blanket impl",
            "std::io::Write::write_all default loop",
        ]
    }

    fn stub_components() -> Vec<&'static str> {
        vec!["SimSink as the device behind Writer<W> (short writes, EINTR, StorageFull or Ok(0) when full)", "canary-guarded backing buffers", "recording sink (internal write boundaries) and bounded-buffer model"]
    }
}
