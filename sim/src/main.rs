//! minisim — deterministic simulation with fault injection for the I/O seams of minicbor.
//!
//!   minisim check  <C13|C14|C15|C16> <quick|thorough> [--workers N] [--runs N] [--no-evidence]
//!   minisim replay <path>
//!   minisim digest <id> <tier> [--workers N] [--runs N]     (determinism proof: prints trace digests)
//!
//! Exit codes: 0 property held on everything explored; 1 violation (a line
//! `VIOLATION property=<id> replay=<path>` is printed); 2 harness error.

mod alloc;
mod c13;
mod c14;
mod c15;
mod c16;
mod engine;
mod json;
mod pipe;
mod rng;
mod stubs;
mod values;

use engine::*;
use json::Json;
use std::time::Instant;

#[global_allocator]
static GLOBAL: alloc::Counting = alloc::Counting;

struct Opts {
    workers: usize,
    runs: Option<u64>,
    evidence: bool,
    seed: u64,
}

fn parse_opts(args: &[String]) -> Opts {
    let mut o = Opts {
        workers: std::thread::available_parallelism().map(|n| n.get()).unwrap_or(4).min(16),
        runs: None,
        evidence: true,
        seed: std::env::var("VERIF_SEED").ok().and_then(|s| s.trim().parse::<u64>().ok()).unwrap_or(1),
    };
    let mut i = 0;
    while i < args.len() {
        match args[i].as_str() {
            "--workers" => {
                o.workers = args.get(i + 1).and_then(|s| s.parse().ok()).unwrap_or(o.workers).max(1);
                i += 1
            }
            "--runs" => {
                o.runs = args.get(i + 1).and_then(|s| s.parse().ok());
                i += 1
            }
            "--no-evidence" => o.evidence = false,
            _ => {}
        }
        i += 1;
    }
    o
}

fn harness_error(msg: &str) -> ! {
    eprintln!("HARNESS-ERROR {msg}");
    std::process::exit(2);
}

struct Known {
    property: String,
    clause: String,
    key: String,
    what: String,
}

fn load_known() -> Vec<Known> {
    let path = format!("{}/known_findings.json", verif_dir());
    let text = match std::fs::read_to_string(&path) {
        Ok(t) => t,
        Err(_) => return Vec::new(),
    };
    let j = match Json::parse(&text) {
        Ok(j) => j,
        Err(e) => harness_error(&format!("known_findings.json does not parse: {e}")),
    };
    let mut out = Vec::new();
    if let Some(a) = j.get("findings").and_then(|f| f.as_arr()) {
        for f in a {
            out.push(Known {
                property: f.get("property").and_then(|x| x.as_str()).unwrap_or("").to_string(),
                clause: f.get("clause").and_then(|x| x.as_str()).unwrap_or("").to_string(),
                key: f.get("key").and_then(|x| x.as_str()).unwrap_or("").to_string(),
                what: f.get("what").and_then(|x| x.as_str()).unwrap_or("").to_string(),
            });
        }
    }
    out
}

fn check<P: Property>(tier: Tier, o: &Opts) -> i32 {
    let t0 = Instant::now();
    println!("minisim property={} tier={} VERIF_SEED={} workers={}", P::ID, tier.name(), o.seed, o.workers);
    let mut batch = Batch::<P>::new(o.seed, tier);
    if let Some(r) = o.runs {
        batch.n_random = r;
    }
    let agg = batch.execute(o.workers, 30);
    let wall_run = t0.elapsed().as_secs_f64();

    // determinism self-check: re-execute a spread of runs and compare the digest contribution
    {
        let total = batch.total();
        let k = 64u64.min(total);
        for i in 0..k {
            let idx = i * (total / k).max(1);
            if idx >= total {
                break;
            }
            let s = batch.scenario(idx);
            let mut o1 = Obs::new();
            let mut o2 = Obs::new();
            let r1 = run_guarded(&s, &mut o1);
            let r2 = run_guarded(&s, &mut o2);
            if o1.trace.finish() != o2.trace.finish() || r1.is_ok() != r2.is_ok() || o1.steps != o2.steps {
                harness_error(&format!("nondeterminism: run {idx} of {} differs between two executions", P::ID));
            }
        }
    }

    let known = load_known();
    let mut new_violations = 0;
    let mut known_hits = 0;
    let mut reported = Vec::new();
    if let Some(f) = agg.found.iter().find(|f| f.violation.clause == "harness_panic") {
        let path = write_replay::<P>(&f.scenario, &f.violation, o.seed, f.index, 0);
        harness_error(&format!("{} (run {}, scenario saved to {path})", f.violation.detail, f.index));
    }
    for f in agg.found.iter().take(6) {
        let m = minimise(&f.scenario, &f.violation, 2000);
        let mut v = m.violation.clone();
        if v.key.is_empty() {
            v.key = f.violation.key.clone();
        }
        if let Some(k) = known.iter().find(|k| k.property == P::ID && k.clause == v.clause && (k.key.is_empty() || v.key.contains(&k.key))) {
            println!("KNOWN-FINDING: property={} clause={} key={} {}", P::ID, v.clause, v.key, k.what);
            known_hits += 1;
            continue;
        }
        let path = write_replay::<P>(&m.scenario, &v, o.seed, f.index, m.executions);
        // the minimised file must reproduce in a fresh process
        let exe = std::env::current_exe().unwrap_or_else(|e| harness_error(&format!("current_exe: {e}")));
        let out = std::process::Command::new(exe).arg("replay").arg(&path).output();
        match out {
            Ok(out) => {
                let text = String::from_utf8_lossy(&out.stdout);
                let same = text.contains(&format!("clause={} ", v.clause));
                if out.status.code() != Some(1) || !same {
                    harness_error(&format!("replay of {path} in a fresh process did not reproduce clause {} (exit {:?})", v.clause, out.status.code()));
                }
            }
            Err(e) => harness_error(&format!("cannot spawn replay: {e}")),
        }
        println!("  run_index={} clause={} minimised_in={} executions", f.index, v.clause, m.executions);
        println!("  detail: {}", v.detail);
        println!("VIOLATION property={} replay={}", P::ID, path);
        reported.push(Json::obj().set("clause", v.clause.as_str()).set("detail", v.detail.as_str()).set("replay", path.as_str()).set("run_index", f.index));
        new_violations += 1;
    }

    let wall = t0.elapsed().as_secs_f64();
    // probes that never fired are worth knowing about
    let mut zero_probes = Vec::new();
    if o.evidence {
        let mut faults = Json::obj();
        for (i, n) in fk::NAMES.iter().enumerate() {
            if agg.faults[i] > 0 {
                faults.put(n, agg.faults[i]);
            }
        }
        let mut probes = Json::obj();
        for (i, n) in pb::NAMES.iter().enumerate() {
            if agg.probes[i] > 0 {
                probes.put(n, agg.probes[i]);
            } else if P::probes().contains(&i) {
                zero_probes.push(*n);
            }
        }
        let samples: Vec<Json> = agg.samples.iter().take(6).map(|(i, s)| Json::obj().set("run_index", *i).set("scenario", s.to_json())).collect();
        let cov = Json::obj()
            .set("evaluations", agg.evaluations)
            .set("distinct_nontrivial", agg.nontrivial_hashes.len())
            .set("rule", P::rule())
            .set("samples", Json::Arr(samples))
            .set("exhaustive", false)
            .set("sweep_runs", agg.sweep_runs)
            .set("random_runs", agg.random_runs)
            .set("nontrivial_runs", agg.nontrivial_runs)
            .set("sim_steps", agg.steps)
            .set("sim_time_note", "simulated time = number of simulator events (stub calls, polls, caller decisions); the code under test has no clock")
            .set("runs_per_hour", ((agg.evaluations as f64) / wall_run.max(1e-6) * 3600.0) as u64)
            .set("seeds_per_hour", ((agg.random_runs as f64) / wall_run.max(1e-6) * 3600.0) as u64)
            .set("seeds_note", "every random run has its own seed = splitmix64(VERIF_SEED ^ tag(property) ^ index*phi); sweep/enumerated runs are seed-independent")
            .set("faults_injected", faults)
            .set("probes", probes)
            .set("intended_probes_at_zero", Json::Arr(zero_probes.iter().map(|p| Json::from(*p)).collect()))
            .set("distinct_abstract_edges", agg.edges.len())
            .set("trace_digest", format!("{:016x}/{:016x}", agg.digest_sum, agg.digest_xor))
            .set("workers", o.workers)
            .set("real_components", Json::Arr(P::real_components().into_iter().map(Json::from).collect()))
            .set("stub_components", Json::Arr(P::stub_components().into_iter().map(Json::from).collect()))
            .set("violations_detail", Json::Arr(reported));
        let ev = Json::obj()
            .set("property_id", P::ID)
            .set("tier", tier.name())
            .set("seed", o.seed)
            .set("level", P::LEVEL)
            .set("coverage", cov)
            .set("assumptions", Json::Arr(P::assumptions().into_iter().map(Json::from).collect()))
            .set("wall_s", wall)
            .set("violations", new_violations as i64)
            .set("known_findings", known_hits as i64);
        let dir = format!("{}/evidence", verif_dir());
        let _ = std::fs::create_dir_all(&dir);
        let path = format!("{}/{}.json", dir, P::ID);
        if let Err(e) = std::fs::write(&path, ev.to_string_pretty()) {
            harness_error(&format!("cannot write {path}: {e}"));
        }
    }
    println!(
        "minisim property={} runs={} (sweep {} + random {}) nontrivial_distinct={} edges={} steps={} wall={:.1}s digest={:016x}/{:016x} violations={} known={}",
        P::ID,
        agg.evaluations,
        agg.sweep_runs,
        agg.random_runs,
        agg.nontrivial_hashes.len(),
        agg.edges.len(),
        agg.steps,
        wall,
        agg.digest_sum,
        agg.digest_xor,
        new_violations,
        known_hits
    );
    if !zero_probes.is_empty() {
        println!("note: intended probes that never fired for {} in this run: {}", P::ID, zero_probes.join(", "));
    }
    if new_violations > 0 {
        1
    } else {
        0
    }
}

fn digest<P: Property>(tier: Tier, o: &Opts) -> i32 {
    let mut batch = Batch::<P>::new(o.seed, tier);
    if let Some(r) = o.runs {
        batch.n_random = r;
    }
    let agg = batch.execute(o.workers, 30);
    let mut f = 0u64;
    for (i, x) in agg.faults.iter().enumerate() {
        f = f.wrapping_mul(31).wrapping_add(*x).wrapping_add(i as u64);
    }
    for x in agg.probes.iter() {
        f = f.wrapping_mul(31).wrapping_add(*x);
    }
    println!(
        "DIGEST property={} seed={} runs={} steps={} sum={:016x} xor={:016x} distinct={} edges={} counters={:016x} found={}",
        P::ID,
        o.seed,
        agg.evaluations,
        agg.steps,
        agg.digest_sum,
        agg.digest_xor,
        agg.nontrivial_hashes.len(),
        agg.edges.len(),
        f,
        agg.found.len()
    );
    0
}

macro_rules! dispatch {
    ($id:expr, $f:ident, $($arg:expr),*) => {
        match $id {
            "C13" => $f::<c13::P13>($($arg),*),
            "C14" => $f::<c14::P14>($($arg),*),
            "C15" => $f::<c15::P15>($($arg),*),
            "C16" => $f::<c16::P16>($($arg),*),
            other => harness_error(&format!("unknown property {other}")),
        }
    };
}

fn main() {
    // everything runs on a thread with a roomy stack (minimiser and replay call into the code under test too)
    let h = std::thread::Builder::new().name("driver".into()).stack_size(engine::BIG_STACK).spawn(real_main).expect("spawn driver");
    let _ = h.join();
    std::process::exit(2);
}

fn real_main() {
    install_panic_hook();
    let args: Vec<String> = std::env::args().skip(1).collect();
    if args.is_empty() {
        harness_error("usage: minisim check|replay|digest ...");
    }
    let code = match args[0].as_str() {
        "check" | "digest" => {
            let id = args.get(1).map(|s| s.as_str()).unwrap_or("");
            let tier = match args.get(2).map(|s| s.as_str()).or(std::env::var("VERIF_TIER").ok().as_deref()) {
                Some("quick") => Tier::Quick,
                Some("thorough") => Tier::Thorough,
                _ => harness_error("tier must be quick or thorough"),
            };
            let o = parse_opts(&args[3.min(args.len())..]);
            if args[0] == "check" {
                dispatch!(id, check, tier, &o)
            } else {
                dispatch!(id, digest, tier, &o)
            }
        }
        "replay" => {
            let path = args.get(1).unwrap_or_else(|| harness_error("replay needs a path"));
            let text = std::fs::read_to_string(path).unwrap_or_else(|e| harness_error(&format!("cannot read {path}: {e}")));
            let j = Json::parse(&text).unwrap_or_else(|e| harness_error(&format!("{path}: {e}")));
            let id = j.get("property").and_then(|p| p.as_str()).unwrap_or("").to_string();
            dispatch!(id.as_str(), replay, &j, path)
        }
        other => harness_error(&format!("unknown command {other}")),
    };
    std::process::exit(code);
}
