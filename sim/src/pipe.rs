//! Two-task scenario shared by C15 and C16: an `AsyncWriter` task and an `AsyncReader` task
//! joined by a bounded in-memory pipe, run by an executor that only polls a task whose waker
//! has fired (so a lost wake-up shows up as a deadlock), with the scheduler lane choosing which
//! runnable task goes next.  Back-pressure (pipe full / empty), partial transfers, spurious
//! `Pending`s, transient errors, cancellations on both sides (the writer side obeying the
//! cancel-then-`sync` protocol) and a writer crash in mid-frame are all scripted.
//!
//! Oracles: bytes carried by the pipe vs. the frame log after every executor step (C16);
//! reader results vs. the bytes the pipe carried (C15); progress (no deadlock, bounded polls).

use crate::c15::shrink_vec;
use crate::engine::{fk, pb, Obs, Violation};
use crate::json::Json;
use crate::rng::Rng;
use crate::stubs::*;
use crate::values::*;
use futures_io::{AsyncRead, AsyncWrite};
use minicbor::encode::{self, Encoder, Write};
use minicbor::Encode;
use minicbor_io::{AsyncReader, AsyncWriter, Error};
use std::cell::RefCell;
use std::future::Future;
use std::io;
use std::pin::Pin;
use std::rc::Rc;
use std::sync::atomic::{AtomicBool, Ordering};
use std::sync::Arc;
use std::task::{Context, Poll, Wake, Waker};

#[derive(Clone, Debug)]
pub struct PipeSc {
    pub family: Ty,
    pub values: Vec<ValSpec>,
    pub cap: u32,
    /// which runnable task is polled next when both are runnable (false = writer, true = reader)
    pub sched: Vec<bool>,
    pub wlane: Vec<Step>,
    pub rlane: Vec<Step>,
    pub wcaller: Vec<Decide>,
    pub rcaller: Vec<Decide>,
    /// the writer process dies once the pipe has carried this many bytes (may be inside a frame)
    pub crash_at: Option<u32>,
    pub w_init_buf: u32,
    pub r_init_buf: u32,
}

/// Pre-encoded CBOR written verbatim (the pipe scenario is about transport, not about codecs).
struct RawCbor<'a>(&'a [u8]);

impl<'a, C> Encode<C> for RawCbor<'a> {
    fn encode<W: Write>(&self, e: &mut Encoder<W>, _: &mut C) -> Result<(), encode::Error<W::Error>> {
        e.writer_mut().write_all(self.0).map_err(encode::Error::write)
    }
}

struct PipeCore {
    buf: std::collections::VecDeque<u8>,
    cap: usize,
    /// every byte the write end ever accepted, in order
    carried: Vec<u8>,
    delivered: usize,
    closed: bool,
    crash_at: Option<usize>,
    crashed: bool,
    wlane: Vec<Step>,
    wpos: usize,
    rlane: Vec<Step>,
    rpos: usize,
    rwaker: Option<Waker>,
    wwaker: Option<Waker>,
    served_werr: [u64; NK],
    served_rerr: [u64; NK],
    layout: Layout,
    obs: Rc<RefCell<Obs>>,
}

impl PipeCore {
    fn next(lane: &[Step], pos: &mut usize) -> Step {
        if *pos < lane.len() {
            *pos += 1;
            lane[*pos - 1]
        } else {
            Step::Xfer(u32::MAX)
        }
    }
}

struct PipeW(Rc<RefCell<PipeCore>>);
struct PipeR(Rc<RefCell<PipeCore>>);

impl AsyncWrite for PipeW {
    fn poll_write(self: Pin<&mut Self>, cx: &mut Context<'_>, buf: &[u8]) -> Poll<io::Result<usize>> {
        let mut guard = self.0.borrow_mut();
        let p = &mut *guard;
        let obs = p.obs.clone();
        let mut o = obs.borrow_mut();
        if buf.is_empty() {
            o.event(ev::ZERO, 0);
            return Poll::Ready(Ok(0));
        }
        if p.crashed || p.crash_at.map(|c| p.carried.len() >= c).unwrap_or(false) {
            p.crashed = true;
            o.event(ev::ERR + 3, p.carried.len() as u64);
            return Poll::Ready(Err(io::Error::new(io::ErrorKind::BrokenPipe, "minisim: writer process died")));
        }
        let phase = p.layout.phase(p.carried.len());
        match PipeCore::next(&p.wlane, &mut p.wpos) {
            Step::Pending => {
                o.event(ev::PENDING, 1);
                o.fault(fk::pending_write);
                if phase.inside() {
                    o.nontrivial = true
                }
                cx.waker().wake_by_ref();
                Poll::Pending
            }
            Step::Err(k) => {
                p.served_werr[k.idx()] += 1;
                o.event(ev::ERR + k.idx() as u8, 1);
                o.fault(fk::transient_err_write);
                if phase.inside() {
                    o.nontrivial = true
                }
                Poll::Ready(Err(io::Error::new(k.io(), "minisim: injected")))
            }
            step => {
                let k = match step {
                    Step::Xfer(k) => k.max(1) as usize,
                    _ => usize::MAX,
                };
                let free = p.cap - p.buf.len();
                if free == 0 {
                    o.event(ev::FULL, p.carried.len() as u64);
                    o.fault(fk::pipe_full);
                    if phase.inside() {
                        o.nontrivial = true
                    }
                    p.wwaker = Some(cx.waker().clone());
                    return Poll::Pending;
                }
                let mut n = k.min(free).min(buf.len());
                if let Some(c) = p.crash_at {
                    n = n.min(c - p.carried.len());
                }
                p.buf.extend(&buf[..n]);
                p.carried.extend_from_slice(&buf[..n]);
                o.event(if n < buf.len() { ev::XFER_SHORT } else { ev::XFER_ALL }, n as u64);
                if n < buf.len() {
                    o.fault(fk::short_write);
                    if p.layout.phase(p.carried.len()).inside() {
                        o.nontrivial = true
                    }
                }
                o.edge(96 + phase.code(), (p.buf.len() == p.cap) as u32);
                if let Some(w) = p.rwaker.take() {
                    w.wake();
                }
                Poll::Ready(Ok(n))
            }
        }
    }
    fn poll_flush(self: Pin<&mut Self>, _: &mut Context<'_>) -> Poll<io::Result<()>> {
        Poll::Ready(Ok(()))
    }
    fn poll_close(self: Pin<&mut Self>, _: &mut Context<'_>) -> Poll<io::Result<()>> {
        let mut p = self.0.borrow_mut();
        p.closed = true;
        if let Some(w) = p.rwaker.take() {
            w.wake();
        }
        Poll::Ready(Ok(()))
    }
}

impl AsyncRead for PipeR {
    fn poll_read(self: Pin<&mut Self>, cx: &mut Context<'_>, buf: &mut [u8]) -> Poll<io::Result<usize>> {
        let mut guard = self.0.borrow_mut();
        let p = &mut *guard;
        let obs = p.obs.clone();
        let mut o = obs.borrow_mut();
        let phase = p.layout.phase(p.delivered);
        match PipeCore::next(&p.rlane, &mut p.rpos) {
            Step::Pending => {
                o.event(ev::PENDING, 2);
                o.fault(fk::pending_read);
                if phase.inside() {
                    o.nontrivial = true
                }
                cx.waker().wake_by_ref();
                Poll::Pending
            }
            Step::Err(k) => {
                p.served_rerr[k.idx()] += 1;
                o.event(ev::ERR + k.idx() as u8, 2);
                o.fault(fk::transient_err_read);
                if phase.inside() {
                    o.nontrivial = true
                }
                Poll::Ready(Err(io::Error::new(k.io(), "minisim: injected")))
            }
            step => {
                let k = match step {
                    Step::Xfer(k) => k.max(1) as usize,
                    _ => usize::MAX,
                };
                if p.buf.is_empty() {
                    if p.closed {
                        o.event(ev::EOF, p.delivered as u64);
                        if phase.inside() {
                            o.fault(fk::stream_cut_in_frame);
                            o.nontrivial = true;
                        }
                        return Poll::Ready(Ok(0));
                    }
                    o.event(ev::PENDING, 3);
                    o.fault(fk::pipe_empty);
                    if phase.inside() {
                        o.nontrivial = true
                    }
                    p.rwaker = Some(cx.waker().clone());
                    return Poll::Pending;
                }
                let n = k.min(p.buf.len()).min(buf.len());
                for b in buf[..n].iter_mut() {
                    *b = p.buf.pop_front().unwrap();
                }
                p.delivered += n;
                o.event(if n < buf.len() { ev::XFER_SHORT } else { ev::XFER_ALL }, n as u64);
                if n < buf.len() {
                    o.fault(fk::short_read);
                    if p.layout.phase(p.delivered).inside() {
                        o.nontrivial = true
                    }
                }
                o.edge(104 + phase.code(), p.buf.is_empty() as u32);
                if let Some(w) = p.wwaker.take() {
                    w.wake();
                }
                Poll::Ready(Ok(n))
            }
        }
    }
}

/// Polls the inner future; when it returns `Pending` and the caller lane says `Cancel`, the
/// inner future is dropped and `None` is returned (the caller then re-issues or syncs).
struct Cancellable<'a, T> {
    fut: Option<Pin<Box<dyn Future<Output = T> + 'a>>>,
    lane: Rc<RefCell<Caller>>,
}

impl<'a, T> Future for Cancellable<'a, T> {
    type Output = Option<T>;
    fn poll(mut self: Pin<&mut Self>, cx: &mut Context<'_>) -> Poll<Option<T>> {
        let this = &mut *self;
        let f = this.fut.as_mut().expect("polled after completion");
        match f.as_mut().poll(cx) {
            Poll::Ready(v) => {
                this.fut = None;
                Poll::Ready(Some(v))
            }
            Poll::Pending => {
                if this.lane.borrow_mut().next() == Decide::Cancel {
                    this.fut = None; // drop the pending future
                    Poll::Ready(None)
                } else {
                    Poll::Pending
                }
            }
        }
    }
}

fn cancellable<'a, T>(f: impl Future<Output = T> + 'a, lane: &Rc<RefCell<Caller>>) -> Cancellable<'a, T> {
    Cancellable { fut: Some(Box::pin(f)), lane: lane.clone() }
}

#[derive(Debug, Clone, PartialEq)]
enum RRes {
    Value(String),
    CleanEnd,
    UnexpectedEof,
    IoErr(io::ErrorKind),
    Other(String),
}

/// What the two tasks publish for the oracle.
#[derive(Default)]
struct Shared {
    committed: Vec<u8>,
    inflight: Option<Vec<u8>>,
    writer_done: bool,
    writer_died: bool,
    w_ret_err: [u64; NK],
    w_violation: Option<Violation>,
    results: Vec<(RRes, usize)>,
    r_ret_err: [u64; NK],
    reader_done: bool,
    cancels_w: u64,
    cancels_r: u64,
}

struct Flag(AtomicBool);
impl Wake for Flag {
    fn wake(self: Arc<Self>) {
        self.0.store(true, Ordering::Relaxed)
    }
    fn wake_by_ref(self: &Arc<Self>) {
        self.0.store(true, Ordering::Relaxed)
    }
}

async fn writer_task(
    mut w: AsyncWriter<PipeW>,
    payloads: Vec<Vec<u8>>,
    sh: Rc<RefCell<Shared>>,
    lane: Rc<RefCell<Caller>>,
    pipe: Rc<RefCell<PipeCore>>,
    obs: Rc<RefCell<Obs>>,
    retry_cap: u32,
) {
    'outer: for (idx, p) in payloads.iter().enumerate() {
        sh.borrow_mut().inflight = Some(frame(p));
        let r = cancellable(w.write(RawCbor(p)), &lane).await;
        let mut need_sync = false;
        match r {
            Some(Ok(n)) => {
                if n != p.len() {
                    sh.borrow_mut().w_violation = Some(Violation::new("s_return_len", format!("pipe: write #{idx} returned Ok({n}), payload is {} bytes", p.len())));
                    break 'outer;
                }
            }
            Some(Err(Error::Io(e))) if e.kind() == io::ErrorKind::BrokenPipe => {
                sh.borrow_mut().writer_died = true;
                break 'outer;
            }
            Some(Err(Error::Io(e))) => {
                if let Some(k) = ErrKind::from_io(e.kind()) {
                    sh.borrow_mut().w_ret_err[k.idx()] += 1;
                }
                need_sync = true;
            }
            Some(Err(e)) => {
                sh.borrow_mut().w_violation = Some(Violation::new("s_commit", format!("pipe: write #{idx} failed with {e}")));
                break 'outer;
            }
            None => {
                sh.borrow_mut().cancels_w += 1;
                let mut o = obs.borrow_mut();
                o.fault(fk::cancel_write);
                o.probe(pb::pipe_writer_cancel);
                o.nontrivial = true;
                need_sync = true;
            }
        }
        let mut sync_rounds = 0u32;
        while need_sync {
            sync_rounds += 1;
            if sync_rounds > retry_cap {
                sh.borrow_mut().w_violation = Some(Violation::new("progress", format!("pipe: sync for write #{idx} did not complete after {retry_cap} attempts")));
                break 'outer;
            }
            match cancellable(w.sync(), &lane).await {
                Some(Ok(())) => need_sync = false,
                Some(Err(Error::Io(e))) if e.kind() == io::ErrorKind::BrokenPipe => {
                    sh.borrow_mut().writer_died = true;
                    break 'outer;
                }
                Some(Err(Error::Io(e))) => {
                    if let Some(k) = ErrKind::from_io(e.kind()) {
                        sh.borrow_mut().w_ret_err[k.idx()] += 1;
                    }
                }
                Some(Err(e)) => {
                    sh.borrow_mut().w_violation = Some(Violation::new("s_commit", format!("pipe: sync for write #{idx} failed with {e}")));
                    break 'outer;
                }
                None => {
                    let mut o = obs.borrow_mut();
                    o.fault(fk::cancel_sync);
                    o.probe(pb::cancel_of_sync);
                }
            }
        }
        // commit: the whole frame must have been carried
        let mut s = sh.borrow_mut();
        let f = s.inflight.take().unwrap();
        let carried = pipe.borrow().carried.len();
        if carried != s.committed.len() + f.len() {
            s.w_violation = Some(Violation::new(
                "s_commit",
                format!("pipe: write #{idx} reported complete but the pipe carried {} of {} frame bytes", carried.saturating_sub(s.committed.len()), f.len()),
            ));
            break 'outer;
        }
        s.committed.extend_from_slice(&f);
    }
    // end of the writer process: the pipe's write end is closed (clean exit and crash alike)
    {
        let mut p = pipe.borrow_mut();
        p.closed = true;
        if let Some(wk) = p.rwaker.take() {
            wk.wake();
        }
    }
    sh.borrow_mut().writer_done = true;
    obs.borrow_mut().fault(fk::peer_close);
}

async fn reader_task<F: Family>(mut r: AsyncReader<PipeR>, sh: Rc<RefCell<Shared>>, lane: Rc<RefCell<Caller>>, pipe: Rc<RefCell<PipeCore>>, obs: Rc<RefCell<Obs>>, round_cap: u32) {
    let mut after_terminal = 0;
    let mut rounds = 0u32;
    loop {
        rounds += 1;
        if rounds > round_cap {
            // a reader that keeps returning without ever reaching a terminal result
            sh.borrow_mut().results.push((RRes::Other(format!("no terminal result after {round_cap} read calls")), 0));
            break;
        }
        let res = {
            let fut = async {
                match r.read::<F::Of<'_>>().await {
                    Ok(Some(v)) => RRes::Value(fingerprint(&v)),
                    Ok(None) => RRes::CleanEnd,
                    Err(Error::Io(e)) if e.kind() == io::ErrorKind::UnexpectedEof => RRes::UnexpectedEof,
                    Err(Error::Io(e)) => RRes::IoErr(e.kind()),
                    Err(e) => RRes::Other(e.to_string()),
                }
            };
            cancellable(fut, &lane).await
        };
        match res {
            None => {
                sh.borrow_mut().cancels_r += 1;
                let mut o = obs.borrow_mut();
                o.fault(fk::cancel_read);
                o.probe(pb::pipe_reader_cancel);
                o.nontrivial = true;
            }
            Some(x) => {
                let delivered = pipe.borrow().delivered;
                let terminal = matches!(x, RRes::CleanEnd | RRes::UnexpectedEof | RRes::Other(_));
                if let RRes::IoErr(k) = &x {
                    if let Some(e) = ErrKind::from_io(*k) {
                        sh.borrow_mut().r_ret_err[e.idx()] += 1;
                    }
                }
                sh.borrow_mut().results.push((x, delivered));
                if terminal {
                    after_terminal += 1;
                    if after_terminal >= 2 {
                        break;
                    }
                }
            }
        }
    }
    sh.borrow_mut().reader_done = true;
}

struct Run<'s> {
    s: &'s PipeSc,
    obs: Rc<RefCell<Obs>>,
}

/// Which property's clauses a pipe run reports.
#[derive(Clone, Copy, PartialEq)]
pub enum Side {
    Reader,
    Writer,
}

impl<'s> Run<'s> {
    fn go<F: Family>(self, side: Side) -> Result<(), Violation> {
        let s = self.s;
        let obs = self.obs;
        let payloads: Vec<Vec<u8>> = s.values.iter().filter_map(reference_encoding).collect();
        let mut layout = Layout::default();
        let mut off = 0;
        for p in &payloads {
            layout.push(off, p.len());
            off += 4 + p.len();
        }
        let total = off;
        let mut expected_full: Vec<u8> = Vec::with_capacity(total);
        for p in &payloads {
            expected_full.extend_from_slice(&frame(p));
        }
        // C15 speaks about streams of frames: a run in which the (possibly mutated) writer put anything else
        // into the pipe is inconclusive for the reader side
        let stream_is_frames = |pipe: &Rc<RefCell<PipeCore>>| expected_full.starts_with(&pipe.borrow().carried);
        let pipe = Rc::new(RefCell::new(PipeCore {
            buf: Default::default(),
            cap: (s.cap as usize).max(1),
            carried: Vec::new(),
            delivered: 0,
            closed: false,
            crash_at: s.crash_at.map(|c| (c as usize).min(total)),
            crashed: false,
            wlane: s.wlane.clone(),
            wpos: 0,
            rlane: s.rlane.clone(),
            rpos: 0,
            rwaker: None,
            wwaker: None,
            served_werr: [0; NK],
            served_rerr: [0; NK],
            layout: layout.clone(),
            obs: obs.clone(),
        }));
        let sh = Rc::new(RefCell::new(Shared::default()));
        let wl = Rc::new(RefCell::new(Caller::new(s.wcaller.clone())));
        let rl = Rc::new(RefCell::new(Caller::new(s.rcaller.clone())));
        let writer = AsyncWriter::with_buffer(PipeW(pipe.clone()), garbage(s.w_init_buf as usize));
        let reader = AsyncReader::with_buffer(PipeR(pipe.clone()), garbage(s.r_init_buf as usize));
        let mut tasks: [Option<Pin<Box<dyn Future<Output = ()>>>>; 2] = [
            Some(Box::pin(writer_task(writer, payloads.clone(), sh.clone(), wl, pipe.clone(), obs.clone(), (s.wlane.len() + s.wcaller.len() + 16) as u32))),
            Some(Box::pin(reader_task::<F>(reader, sh.clone(), rl, pipe.clone(), obs.clone(), (s.rlane.len() + s.rcaller.len() + payloads.len() + 16) as u32))),
        ];
        let flags = [Arc::new(Flag(AtomicBool::new(true))), Arc::new(Flag(AtomicBool::new(true)))];
        let wakers = [Waker::from(flags[0].clone()), Waker::from(flags[1].clone())];

        let cap = (s.cap as u64).max(1);
        let budget = 8 * (total as u64 / cap + total as u64 + 8)
            + 4 * (s.wlane.len() + s.rlane.len() + s.wcaller.len() + s.rcaller.len() + s.sched.len()) as u64
            + 16 * (payloads.len() as u64 + 2);
        let mut polls = 0u64;
        let mut per_task = [0u64; 2];
        let mut sched_pos = 0usize;
        let mut rr = false;
        let mut seen_inflight = 0usize;
        let mut last_committed = 0usize;
        loop {
            let alive = [tasks[0].is_some(), tasks[1].is_some()];
            if !alive[0] && !alive[1] {
                break;
            }
            let runnable = [alive[0] && flags[0].0.load(Ordering::Relaxed), alive[1] && flags[1].0.load(Ordering::Relaxed)];
            let pick = match runnable {
                [false, false] => {
                    let p = pipe.borrow();
                    // attribute the deadlock to the task that is parked although it could make progress
                    let writer_stuck = alive[0] && p.buf.len() < p.cap;
                    let reader_stuck = alive[1] && (!p.buf.is_empty() || p.closed);
                    let mine = match side {
                        Side::Writer => writer_stuck,
                        Side::Reader => reader_stuck,
                    };
                    if !mine || (side == Side::Reader && !stream_is_frames(&pipe)) {
                        // the other party stopped (only possible when the other party is broken): inconclusive for this side
                        return Ok(());
                    }
                    let v = Violation::new(
                        "progress",
                        format!(
                            "deadlock: writer {} reader {}, neither was woken; pipe holds {} of {} bytes, carried {}, delivered {} (lost wake-up)",
                            if alive[0] { "parked" } else { "done" },
                            if alive[1] { "parked" } else { "done" },
                            p.buf.len(),
                            p.cap,
                            p.carried.len(),
                            p.delivered
                        ),
                    );
                    return Err(v);
                }
                [true, false] => 0,
                [false, true] => 1,
                [true, true] => {
                    let c = if sched_pos < s.sched.len() {
                        sched_pos += 1;
                        s.sched[sched_pos - 1]
                    } else {
                        rr = !rr;
                        rr
                    };
                    obs.borrow_mut().fault(fk::task_switch);
                    c as usize
                }
            };
            polls += 1;
            per_task[pick] += 1;
            if polls > budget {
                // a livelock belongs to the task that keeps being polled
                let culprit = if per_task[0] >= per_task[1] { Side::Writer } else { Side::Reader };
                if culprit != side || (side == Side::Reader && !stream_is_frames(&pipe)) {
                    return Ok(());
                }
                return Err(Violation::new("progress", format!("more than {budget} task polls without both tasks finishing (writer {} polls, reader {})", per_task[0], per_task[1])));
            }
            obs.borrow_mut().event(ev::SWITCH, pick as u64);
            flags[pick].0.store(false, Ordering::Relaxed);
            let mut cx = Context::from_waker(&wakers[pick]);
            // a panic inside the OTHER side's task (a tree whose writer is broken, judged for its reader, or the reverse)
            // makes the run inconclusive for this property instead of being charged to it
            let polled = std::panic::catch_unwind(std::panic::AssertUnwindSafe(|| tasks[pick].as_mut().unwrap().as_mut().poll(&mut cx).is_ready()));
            let done = match polled {
                Ok(d) => d,
                Err(payload) => {
                    let culprit = if pick == 0 { Side::Writer } else { Side::Reader };
                    if culprit != side {
                        return Ok(());
                    }
                    std::panic::resume_unwind(payload);
                }
            };
            if done {
                tasks[pick] = None;
            }
            // ---- C16 invariant after every executor step: carried == committed ++ prefix(inflight)
            if side == Side::Writer {
                let shb = sh.borrow();
                if let Some(v) = &shb.w_violation {
                    return Err(v.clone());
                }
                let p = pipe.borrow();
                let c = &shb.committed;
                if c.len() != last_committed {
                    last_committed = c.len();
                    seen_inflight = 0;
                }
                if p.carried.len() < c.len() || p.carried[..c.len()] != c[..] {
                    return Err(Violation::new("s_prefix_invariant", format!("pipe: carried bytes ({}) no longer start with the committed log ({})", p.carried.len(), c.len())));
                }
                let rest = &p.carried[c.len()..];
                match &shb.inflight {
                    None if !rest.is_empty() => {
                        return Err(Violation::new("s_prefix_invariant", format!("pipe: {} bytes carried with no frame in flight", rest.len())));
                    }
                    Some(f) if rest.len() > f.len() || rest != &f[..rest.len()] => {
                        return Err(Violation::new("s_prefix_invariant", format!("pipe: carried tail ({} bytes) is not a prefix of the in-flight frame ({} bytes)", rest.len(), f.len())));
                    }
                    Some(_) => {
                        if rest.len() < seen_inflight {
                            return Err(Violation::new("s_prefix_invariant", "pipe: carried bytes shrank".to_string()));
                        }
                        seen_inflight = rest.len();
                    }
                    None => {}
                }
            }
        }
        {
            let mut o = obs.borrow_mut();
            let _p = pipe.borrow();
            if o.faults[fk::pipe_full] > 0 && o.faults[fk::pipe_empty] > 0 {
                o.probe(pb::pipe_both_blocked_resolved);
            }
        }
        let shb = sh.borrow();
        let p = pipe.borrow();
        match side {
            Side::Writer => {
                if let Some(v) = &shb.w_violation {
                    return Err(v.clone());
                }
                if !shb.writer_died {
                    if p.carried != shb.committed || p.carried.len() != total {
                        return Err(Violation::new("s_commit", format!("pipe: writer finished; carried {} bytes, log {} bytes, expected {total}", p.carried.len(), shb.committed.len())));
                    }
                }
                for k in ERR_KINDS {
                    if p.served_werr[k.idx()] != shb.w_ret_err[k.idx()] {
                        return Err(Violation::new(
                            "s_transient_once",
                            format!("pipe: write end produced {} {} errors, writer reported {}", p.served_werr[k.idx()], k.name(), shb.w_ret_err[k.idx()]),
                        ));
                    }
                }
                Ok(())
            }
            Side::Reader => {
                if !expected_full.starts_with(&p.carried) {
                    return Ok(());
                }
                // model: parse what the pipe carried
                let carried = &p.carried;
                let mut expected: Vec<(String, usize)> = Vec::new();
                let mut pos = 0;
                let clean;
                loop {
                    if pos == carried.len() {
                        clean = true;
                        break;
                    }
                    if carried.len() - pos < 4 {
                        clean = false;
                        break;
                    }
                    let d = u32::from_be_bytes([carried[pos], carried[pos + 1], carried[pos + 2], carried[pos + 3]]) as usize;
                    if carried.len() - pos - 4 < d {
                        clean = false;
                        break;
                    }
                    match direct_decode::<F>(&carried[pos + 4..pos + 4 + d]) {
                        Ok(fp) => expected.push((fp, pos + 4 + d)),
                        Err(e) => {
                            // the writer side is broken (only possible on a mutated tree); not the reader's fault
                            let _ = e;
                            return Ok(());
                        }
                    }
                    pos += 4 + d;
                }
                let mut got = 0usize;
                let mut terminal: Option<&RRes> = None;
                for (res, delivered) in &shb.results {
                    if let Some(t) = terminal {
                        if let RRes::Value(v) = res {
                            return Err(Violation::new("a_truncation", format!("pipe: value {} returned after {:?}", crate::c15::clip(v), t)));
                        }
                        continue;
                    }
                    match res {
                        RRes::Value(v) => {
                            if got >= expected.len() {
                                return Err(Violation::new(
                                    if clean { "a_sequence" } else { "a_truncation" },
                                    format!("pipe: value #{got} {} returned but the pipe carried only {} complete frames", crate::c15::clip(v), expected.len()),
                                ));
                            }
                            if *v != expected[got].0 {
                                return Err(Violation::new("a_sequence", format!("pipe: value #{got} is {} but {} was carried", crate::c15::clip(v), crate::c15::clip(&expected[got].0))));
                            }
                            if *delivered < expected[got].1 {
                                return Err(Violation::new("a_no_early_value", format!("pipe: value #{got} returned after {delivered} delivered bytes; its frame ends at {}", expected[got].1)));
                            }
                            got += 1;
                        }
                        RRes::CleanEnd => {
                            if !clean {
                                return Err(Violation::new("a_truncation", "pipe: clean end reported although the writer died inside a frame".to_string()));
                            }
                            if got != expected.len() {
                                return Err(Violation::new("a_sequence", format!("pipe: clean end after {got} of {} values (lost)", expected.len())));
                            }
                            terminal = Some(res);
                        }
                        RRes::UnexpectedEof => {
                            if clean {
                                return Err(Violation::new("a_clean_end", "pipe: unexpected-eof although the stream ended at a frame boundary".to_string()));
                            }
                            if got != expected.len() {
                                return Err(Violation::new("a_sequence", format!("pipe: unexpected end after {got} of {} complete frames (lost)", expected.len())));
                            }
                            terminal = Some(res);
                        }
                        RRes::IoErr(k) => {
                            if ErrKind::from_io(*k).is_none() {
                                return Err(Violation::new("a_transient_once", format!("pipe: error kind {k:?} that the read end never produced")));
                            }
                        }
                        RRes::Other(e) => return Err(Violation::new("a_sequence", format!("pipe: unexpected error {e}"))),
                    }
                }
                if terminal.is_none() {
                    return Err(Violation::new("progress", "pipe: reader task ended without a terminal result".to_string()));
                }
                for k in ERR_KINDS {
                    if p.served_rerr[k.idx()] != shb.r_ret_err[k.idx()] {
                        return Err(Violation::new(
                            "a_transient_once",
                            format!("pipe: read end produced {} {} errors, reader reported {}", p.served_rerr[k.idx()], k.name(), shb.r_ret_err[k.idx()]),
                        ));
                    }
                }
                Ok(())
            }
        }
    }
}

struct FamRun<'s> {
    run: Run<'s>,
    side: Side,
}

impl<'s> FamVisitor for FamRun<'s> {
    type Out = Result<(), Violation>;
    fn visit<F: Family>(self) -> Self::Out {
        self.run.go::<F>(self.side)
    }
}

impl PipeSc {
    pub fn run(&self, side: Side, obs: &mut Obs) -> Result<(), Violation> {
        let shared = Rc::new(RefCell::new(Obs::new()));
        let r = with_family(self.family, FamRun { run: Run { s: self, obs: shared.clone() }, side });
        *obs = shared.replace(Obs::new());
        r.map_err(|v| v.key(format!("pipe family={}", self.family.name())))
    }

    pub fn to_json(&self) -> Json {
        Json::obj()
            .set("kind", "pipe")
            .set("family", self.family.name())
            .set("values", Json::Arr(self.values.iter().map(|v| v.to_json()).collect()))
            .set("cap", self.cap)
            .set("sched", Json::Str(self.sched.iter().map(|b| if *b { 'r' } else { 'w' }).collect()))
            .set("wlane", lane_to_json(&self.wlane))
            .set("rlane", lane_to_json(&self.rlane))
            .set("wcaller", decides_to_json(&self.wcaller))
            .set("rcaller", decides_to_json(&self.rcaller))
            .set("crash_at", self.crash_at)
            .set("w_init_buf", self.w_init_buf)
            .set("r_init_buf", self.r_init_buf)
    }

    pub fn from_json(j: &Json) -> Result<PipeSc, String> {
        Ok(PipeSc {
            family: j.get("family").and_then(|f| f.as_str()).and_then(Ty::parse).ok_or("family")?,
            values: j.get("values").and_then(|v| v.as_arr()).ok_or("values")?.iter().map(ValSpec::from_json).collect::<Result<_, _>>()?,
            cap: j.get("cap").and_then(|c| c.as_u64()).ok_or("cap")? as u32,
            sched: j.get("sched").and_then(|s| s.as_str()).ok_or("sched")?.chars().map(|c| c == 'r').collect(),
            wlane: lane_from_json(j.get("wlane"))?,
            rlane: lane_from_json(j.get("rlane"))?,
            wcaller: decides_from_json(j.get("wcaller"))?,
            rcaller: decides_from_json(j.get("rcaller"))?,
            crash_at: j.get("crash_at").and_then(|c| c.as_u64()).map(|c| c as u32),
            w_init_buf: j.get("w_init_buf").and_then(|c| c.as_u64()).unwrap_or(0) as u32,
            r_init_buf: j.get("r_init_buf").and_then(|c| c.as_u64()).unwrap_or(0) as u32,
        })
    }

    pub fn shrink(&self) -> Vec<PipeSc> {
        let mut out = Vec::new();
        shrink_vec(&self.values, |v| out.push(PipeSc { values: v, ..self.clone() }));
        shrink_vec(&self.sched, |v| out.push(PipeSc { sched: v, ..self.clone() }));
        shrink_vec(&self.wlane, |v| out.push(PipeSc { wlane: v, ..self.clone() }));
        shrink_vec(&self.rlane, |v| out.push(PipeSc { rlane: v, ..self.clone() }));
        shrink_vec(&self.wcaller, |v| out.push(PipeSc { wcaller: v, ..self.clone() }));
        shrink_vec(&self.rcaller, |v| out.push(PipeSc { rcaller: v, ..self.clone() }));
        for (i, v) in self.values.iter().enumerate() {
            for sv in v.shrink() {
                let mut vs = self.values.clone();
                vs[i] = sv;
                out.push(PipeSc { values: vs, ..self.clone() });
            }
        }
        if self.crash_at.is_some() {
            out.push(PipeSc { crash_at: None, ..self.clone() });
        }
        if self.cap < 64 {
            out.push(PipeSc { cap: 64, ..self.clone() });
        }
        if self.w_init_buf > 0 {
            out.push(PipeSc { w_init_buf: 0, ..self.clone() });
        }
        if self.r_init_buf > 0 {
            out.push(PipeSc { r_init_buf: 0, ..self.clone() });
        }
        if self.family != Ty::Str {
            let vs: Vec<ValSpec> = self.values.iter().map(|v| ValSpec { ty: Ty::Str, ..v.clone() }).collect();
            out.push(PipeSc { family: Ty::Str, values: vs, ..self.clone() });
        }
        out
    }

    pub fn generate(r: &mut Rng) -> PipeSc {
        // BrokenPipe is how this world tells the writer task that its process was killed (`crash_at`), so it is not injected
        // as a transient error here
        const PIPE_ERR_KINDS: [ErrKind; 9] = [
            ErrKind::Interrupted,
            ErrKind::WouldBlock,
            ErrKind::TimedOut,
            ErrKind::Other,
            ErrKind::ConnectionReset,
            ErrKind::ConnectionAborted,
            ErrKind::NotConnected,
            ErrKind::InvalidData,
            ErrKind::PermissionDenied,
        ];
        let family = *r.pick(IO_TYS);
        let n = if r.chance(1, 12) { r.range(7, 24) as usize } else { 1 + r.below(6) as usize };
        let profile = r.below(3);
        let values: Vec<ValSpec> = (0..n)
            .map(|_| ValSpec {
                ty: family,
                size: match profile {
                    0 => r.below(4) as u32,
                    1 => r.below(40) as u32,
                    _ => gen_size(r, false).min(if r.chance(1, 10) { 5000 } else { 400 }),
                },
                seed: r.next_u64(),
            })
            .collect();
        let mut values = values;
        if r.chance(1, 3) {
            for i in 1..values.len() {
                if r.chance(1, 4) {
                    values[i] = values[i - 1].clone();
                }
            }
        }
        let total: usize = values.iter().filter_map(reference_encoding).map(|p| p.len() + 4).sum();
        let cap = *r.pick(&[1u32, 1, 2, 3, 4, 5, 7, 8, 16, 33, 64, 256, 4096]);
        let lane = |r: &mut Rng| -> Vec<Step> {
            let en_short = r.chance(2, 3);
            let en_pend = r.chance(1, 2);
            let en_err = r.chance(1, 3);
            let density = *r.pick(&[1u64, 2, 4]);
            let n = r.usize_in(0, 48);
            (0..n)
                .map(|_| {
                    if r.below(16) < density {
                        match r.below(2) {
                            0 if en_pend => Step::Pending,
                            1 if en_err => Step::Err(*r.pick(&PIPE_ERR_KINDS)),
                            _ => Step::Xfer(1),
                        }
                    } else if en_short {
                        Step::Xfer(1 + r.below(6) as u32)
                    } else {
                        Step::Xfer(u32::MAX)
                    }
                })
                .collect()
        };
        let wlane = lane(r);
        let rlane = lane(r);
        let deciders = |r: &mut Rng| -> Vec<Decide> {
            let rate = *r.pick(&[0u64, 1, 3, 6]);
            (0..r.usize_in(0, 48)).map(|_| if r.chance(rate, 16) { Decide::Cancel } else { Decide::Poll }).collect()
        };
        let sched_style = r.below(3);
        let sched: Vec<bool> = (0..r.usize_in(0, 96))
            .map(|i| match sched_style {
                0 => r.chance(1, 2),
                1 => r.chance(1, 8), // writer runs far ahead: pipe full
                _ => (i / 5) % 2 == 0 || r.chance(7, 8), // reader eager: pipe empty
            })
            .collect();
        PipeSc {
            family,
            values,
            cap,
            sched,
            wlane,
            rlane,
            wcaller: deciders(r),
            rcaller: deciders(r),
            crash_at: if r.chance(1, 5) && total > 0 { Some(r.below(total as u64 + 1) as u32) } else { None },
            w_init_buf: if r.chance(1, 4) { r.range(1, 100) as u32 } else { 0 },
            r_init_buf: if r.chance(1, 4) { r.range(1, 100) as u32 } else { 0 },
        }
    }

    /// Small systematic set: every pipe capacity x three schedules x crash at every offset.
    pub fn sweeps() -> Vec<PipeSc> {
        let mut out = Vec::new();
        let values: Vec<ValSpec> = [0u32, 1, 24].iter().enumerate().map(|(i, s)| ValSpec { ty: Ty::Str, size: *s, seed: 40 + i as u64 }).collect();
        let total: usize = values.iter().filter_map(reference_encoding).map(|p| p.len() + 4).sum();
        let base = PipeSc { family: Ty::Str, values, cap: 4, sched: vec![], wlane: vec![], rlane: vec![], wcaller: vec![], rcaller: vec![], crash_at: None, w_init_buf: 0, r_init_buf: 0 };
        for cap in 1..=12u32 {
            for style in 0..3 {
                let sched: Vec<bool> = (0..200).map(|i| match style {
                    0 => i % 2 == 0,
                    1 => false,
                    _ => true,
                }).collect();
                out.push(PipeSc { cap, sched: sched.clone(), ..base.clone() });
                for crash in 0..=total as u32 {
                    if style == 0 || crash % 3 == 0 {
                        out.push(PipeSc { cap, sched: sched.clone(), crash_at: Some(crash), ..base.clone() });
                    }
                }
            }
            // cancel every k-th Pending on both sides
            for k in 1..=3usize {
                let dec: Vec<Decide> = (0..64).map(|i| if i % k == 0 { Decide::Cancel } else { Decide::Poll }).collect();
                out.push(PipeSc { cap, wcaller: dec.clone(), rcaller: dec.clone(), ..base.clone() });
                out.push(PipeSc { cap, wcaller: dec.clone(), wlane: vec![Step::Xfer(1); 60], rlane: vec![Step::Xfer(1); 60], ..base.clone() });
            }
        }
        out
    }
}
