//! C15 — `AsyncReader` cancellation safety.
//!
//! World: a stream of frames built by the harness (independently of minicbor-io), served by a
//! scripted `AsyncRead`; a hand-written single-task executor polls `read::<T>()` and, whenever
//! the future returns `Pending`, takes the caller's decision (keep polling / drop the future and
//! re-issue `read`) from the caller lane.

use crate::engine::{fail, fk, pb, Obs, Property, Scenario, Tier, Violation};
use crate::json::Json;
use crate::rng::Rng;
use crate::stubs::*;
use crate::values::*;
use minicbor_io::{AsyncReader, Error};
use std::cell::RefCell;
use std::future::Future;
use std::rc::Rc;
use std::task::{Context, Poll};

#[derive(Clone, Debug)]
pub struct C15 {
    pub family: Ty,
    pub values: Vec<ValSpec>,
    /// stream truncated at this offset (peer died)
    pub cut: Option<u32>,
    /// length of the stale, garbage-filled buffer handed to `with_buffer`
    pub init_buf: u32,
    /// 0 = library default, 1 = exactly the largest payload, 2 = largest payload + 1
    pub max_len_mode: u8,
    pub use_ctx: bool,
    /// after this many values, at a frame boundary with no read in flight: into_parts() + with_buffer() round trip
    pub rewrap_at: Option<u32>,
    /// after the k-th interruption (cancellation or transient error) that leaves a payload partly read, lower max_len to the
    /// largest payload of the frames still to come (only when max_len_mode == 0)
    pub knob_mid: Option<u32>,
    /// call the reader()/reader_mut() accessors (without consuming anything) whenever no read is in flight
    pub touch: bool,
    /// the source overwrites the unfilled part of the buffer it is given
    pub scribble: bool,
    /// once the caller lane is exhausted, drop-and-reissue on every further Pending (instead of polling on)
    pub late_cancel: bool,
    /// replay the source lane this many more times before the benign default takes over
    pub src_repeat: u32,
    pub src: Vec<Step>,
    pub caller: Vec<Decide>,
}

#[derive(Debug, PartialEq)]
enum Res {
    Value(String),
    CleanEnd,
    UnexpectedEof,
    IoErr(std::io::ErrorKind),
    Decode(String),
    InvalidLen,
    Other(String),
}

fn classify<T: std::fmt::Debug>(r: Result<Option<T>, Error>) -> Res {
    match r {
        Ok(Some(v)) => Res::Value(fingerprint(&v)),
        Ok(None) => Res::CleanEnd,
        Err(Error::Io(e)) if e.kind() == std::io::ErrorKind::UnexpectedEof => Res::UnexpectedEof,
        Err(Error::Io(e)) => Res::IoErr(e.kind()),
        Err(Error::Decode(e)) => Res::Decode(e.to_string()),
        Err(Error::InvalidLen) => Res::InvalidLen,
        Err(e) => Res::Other(e.to_string()),
    }
}

struct Runner<'s> {
    s: &'s C15,
    obs: Rc<RefCell<Obs>>,
}

impl<'s> FamVisitor for Runner<'s> {
    type Out = Result<(), Violation>;

    fn visit<F: Family>(self) -> Self::Out {
        let s = self.s;
        // ---- model: the stream and what must come out of it
        let mut stream = Vec::new();
        let mut layout = Layout::default();
        let mut payloads = Vec::new();
        for v in &s.values {
            let p = match reference_encoding(v) {
                Some(p) => p,
                None => continue,
            };
            layout.push(stream.len(), p.len());
            if p.len() >= 65536 {
                self.obs.borrow_mut().probe(pb::large_frame_ge_64k);
            }
            stream.extend_from_slice(&frame(&p));
            payloads.push(p);
        }
        let full_len = stream.len();
        let cut_at = s.cut.map(|c| (c as usize).min(full_len)).unwrap_or(full_len);
        stream.truncate(cut_at);
        let complete: usize = layout.frames.iter().filter(|(st, l)| st + 4 + l <= cut_at).count();
        let tail_clean = matches!(layout.phase(cut_at), Phase::Boundary);
        if !tail_clean {
            // the fault is counted when EOF is actually served inside the frame (stubs.rs)
        } else if s.cut.is_some() && cut_at < full_len {
            self.obs.borrow_mut().fault(fk::stream_cut_at_boundary);
        }
        let mut expected = Vec::with_capacity(complete);
        for p in &payloads[..complete] {
            match direct_decode::<F>(p) {
                Ok(fp) => expected.push(fp),
                // the codec itself does not round-trip this value (only possible on a tree whose codec is broken):
                // C15 is about transport, the run is inconclusive
                Err(_) => return Ok(()),
            }
        }
        let frame_end: Vec<usize> = layout.frames.iter().map(|(st, l)| st + 4 + l).collect();
        let max_payload = payloads.iter().map(|p| p.len()).max().unwrap_or(0);

        // ---- world
        let n = payloads.len() as u64;
        // implementation-agnostic: even a reader that asked for one byte per poll would stay below this
        let budget = s.src.len() as u64 * (1 + s.src_repeat as u64) + s.caller.len() as u64 + 8 * (n + 1) + 64 + byte_budget(cut_at);
        let core = SrcCore::new(stream, s.src.clone(), layout, budget, self.obs.clone());
        core.borrow_mut().scribble = s.scribble;
        core.borrow_mut().repeat_left = s.src_repeat;
        let mut reader = AsyncReader::with_buffer(SimAsyncSource(core.clone()), garbage(s.init_buf as usize));
        if s.init_buf > 0 {
            self.obs.borrow_mut().fault(fk::garbage_buffer);
        }
        let apply_knob = |reader: &mut AsyncReader<SimAsyncSource>, obs: &Rc<RefCell<Obs>>| match s.max_len_mode {
            1 => {
                reader.set_max_len(max_payload as u32);
                obs.borrow_mut().fault(fk::max_len_knob);
                obs.borrow_mut().probe(pb::frame_len_eq_max_len);
            }
            2 => {
                reader.set_max_len(max_payload as u32 + 1);
                obs.borrow_mut().fault(fk::max_len_knob);
            }
            9 => {
                // "no limit" (64 MiB rather than u32::MAX, so that a mutated reader that loses its place cannot be made to
                // zero-fill gigabytes per run)
                reader.set_max_len(64 << 20);
                obs.borrow_mut().fault(fk::max_len_knob);
            }
            _ => {}
        };
        apply_knob(&mut reader, &self.obs);
        let mut mid_interruptions = 0u32;
        let later_max = |from: usize| payloads.iter().skip(from + 1).map(|p| p.len()).max().unwrap_or(0) as u32;
        let mut at_boundary = true; // no read has consumed bytes of a frame that was not returned yet
        let mut rewrapped = false;
        let mut caller = Caller::with_default(s.caller.clone(), if s.late_cancel { Decide::Cancel } else { Decide::Poll });
        if s.late_cancel {
            self.obs.borrow_mut().fault(fk::late_cancel);
        }
        let (cw, waker) = new_waker();
        let mut cx = Context::from_waker(&waker);

        // ---- drive
        let mut got = 0usize; // values returned so far
        let mut returned_err = [0u64; NK];
        let mut polls = 0u64;
        let mut terminal: Option<Res> = None;
        let mut after_terminal = 0;
        let mut cancels_this_frame = 0u32;
        let mut ctx_unit = ();
        loop {
            // hand the parts to a fresh reader: at a frame boundary this must be invisible -- provided the source has
            // not delivered a byte beyond that boundary yet (an implementation that reads ahead may legitimately hold
            // such bytes in the reader, and nothing in C15 says `into_parts` hands them back)
            let boundary = if got == 0 { 0 } else { frame_end[got - 1] };
            if at_boundary && !rewrapped && s.rewrap_at == Some(got as u32) && core.borrow().pos == boundary {
                let (src, buf) = reader.into_parts();
                reader = AsyncReader::with_buffer(src, buf);
                apply_knob(&mut reader, &self.obs);
                rewrapped = true;
                self.obs.borrow_mut().probe(pb::rewrap_at_boundary);
            }
            at_boundary = false;
            if s.touch {
                let _ = reader.reader_mut();
                let _ = reader.reader();
            }
            self.obs.borrow_mut().event(ev::ISSUE, got as u64);
            let outcome: Option<Res> = {
                let mut fut: std::pin::Pin<Box<dyn Future<Output = Res> + '_>> = if s.use_ctx {
                    let r = &mut reader;
                    let c = &mut ctx_unit;
                    Box::pin(async move { classify(r.read_with::<(), F::Of<'_>>(c).await) })
                } else {
                    let r = &mut reader;
                    Box::pin(async move { classify(r.read::<F::Of<'_>>().await) })
                };
                loop {
                    polls += 1;
                    if polls > budget {
                        fail!("progress", "more than {budget} polls without finishing; {got} of {} values returned", expected.len());
                    }
                    self.obs.borrow_mut().event(ev::POLL, 0);
                    let wakes_before = cw.wakes.load(std::sync::atomic::Ordering::Relaxed);
                    match fut.as_mut().poll(&mut cx) {
                        Poll::Ready(r) => break Some(r),
                        Poll::Pending => {
                            if cw.wakes.load(std::sync::atomic::Ordering::Relaxed) == wakes_before {
                                fail!("progress", "read returned Pending without any wake-up having been arranged during that poll: a real executor would never poll it again");
                            }
                            if caller.next() == Decide::Cancel {
                                break None;
                            }
                        }
                    }
                }
            };
            if core.borrow().cap_hit {
                fail!("progress", "source call cap ({budget}) exceeded; {got} of {} values returned", expected.len());
            }
            let res = match outcome {
                None => {
                    // the pending future was dropped; re-issue
                    let ph = core.borrow().phase();
                    let mut o = self.obs.borrow_mut();
                    o.event(ev::CANCEL, ph.code() as u64);
                    o.fault(fk::cancel_read);
                    o.edge(ph.code(), ev::CANCEL as u32);
                    match ph {
                        Phase::Prefix(3) => {
                            o.probe(pb::cancel_with_3_of_4_prefix_bytes);
                            o.probe(pb::cancel_mid_prefix)
                        }
                        Phase::Prefix(_) => o.probe(pb::cancel_mid_prefix),
                        Phase::Payload { .. } => o.probe(pb::cancel_mid_payload),
                        _ => {}
                    }
                    if ph.inside() {
                        o.nontrivial = true;
                        cancels_this_frame += 1;
                        if cancels_this_frame == 2 {
                            o.probe(pb::double_cancel_same_frame)
                        }
                    }
                    drop(o);
                    if matches!(ph, Phase::Payload { .. }) && s.max_len_mode == 0 {
                        if s.knob_mid == Some(mid_interruptions) {
                            reader.set_max_len(later_max(got));
                            self.obs.borrow_mut().probe(pb::max_len_changed_mid_run);
                        }
                        mid_interruptions += 1;
                    }
                    continue;
                }
                Some(r) => r,
            };
            self.obs.borrow_mut().event(ev::RESULT, res_code(&res));

            if let Some(t) = &terminal {
                // after a terminal result: never a value
                match (&res, t) {
                    (Res::Value(v), _) => fail!("a_truncation", "value {v} returned after the stream had ended ({t:?})"),
                    (Res::CleanEnd, Res::CleanEnd) => self.obs.borrow_mut().probe(pb::clean_end_repeated),
                    (Res::CleanEnd, _) => {}
                    (Res::IoErr(k), _) => note_err(&mut returned_err, *k),
                    _ => {}
                }
                after_terminal += 1;
                if after_terminal >= 2 {
                    break;
                }
                continue;
            }

            match res {
                Res::Value(v) => {
                    if got >= expected.len() {
                        if got >= payloads.len() {
                            fail!("a_sequence", "extra value {v} after all {} written values (duplicated)", payloads.len());
                        }
                        fail!("a_truncation", "value {v} returned for frame {got} although the stream ends inside it (cut at {cut_at})");
                    }
                    if v != expected[got] {
                        let kind = if got > 0 && v == expected[got - 1] {
                            "duplicated"
                        } else if expected[got + 1..].contains(&v) {
                            "lost/reordered"
                        } else {
                            "torn"
                        };
                        fail!("a_sequence", "value #{got} is {} but {} was written ({kind})", clip(&v), clip(&expected[got]));
                    }
                    let delivered = core.borrow().pos;
                    if delivered < frame_end[got] {
                        fail!("a_no_early_value", "value #{got} returned after {delivered} bytes were delivered; its frame ends at {}", frame_end[got]);
                    }
                    got += 1;
                    cancels_this_frame = 0;
                    at_boundary = true;
                }
                Res::CleanEnd => {
                    if !tail_clean {
                        fail!("a_truncation", "clean end reported although the stream ends inside frame {complete} (cut at {cut_at})");
                    }
                    if got != expected.len() {
                        fail!("a_sequence", "clean end after {got} values; {} complete frames were in the stream (lost)", expected.len());
                    }
                    terminal = Some(Res::CleanEnd);
                }
                Res::UnexpectedEof => {
                    if tail_clean {
                        fail!("a_clean_end", "unexpected-eof error although the stream ends at a frame boundary (after {got} values)");
                    }
                    if got != expected.len() {
                        fail!("a_sequence", "unexpected end after {got} values; {} complete frames precede the cut (lost)", expected.len());
                    }
                    terminal = Some(Res::UnexpectedEof);
                }
                Res::IoErr(k) => {
                    if ErrKind::from_io(k).is_none() {
                        fail!("a_transient_once", "i/o error of kind {k:?} that the source never produced");
                    }
                    note_err(&mut returned_err, k);
                    let served = core.borrow().served_err;
                    let i = ErrKind::from_io(k).unwrap().idx();
                    if returned_err[i] > served[i] {
                        fail!("a_transient_once", "error kind {k:?} reported {} times, source produced it {} times", returned_err[i], served[i]);
                    }
                    let ph = core.borrow().phase();
                    if matches!(ph, Phase::Payload { .. }) && s.max_len_mode == 0 {
                        if s.knob_mid == Some(mid_interruptions) {
                            reader.set_max_len(later_max(got));
                            self.obs.borrow_mut().probe(pb::max_len_changed_mid_run);
                        }
                        mid_interruptions += 1;
                    }
                }
                Res::Decode(e) => fail!("a_sequence", "frame {got} failed to decode ({e}) although it was written intact (torn)"),
                Res::InvalidLen => fail!("a_sequence", "InvalidLen for frame {got} although max_len >= every written payload"),
                Res::Other(e) => fail!("a_sequence", "unexpected error {e}"),
            }
        }

        // every transient error the source produced was reported exactly once
        let served = core.borrow().served_err;
        for k in ERR_KINDS {
            if served[k.idx()] != returned_err[k.idx()] {
                fail!(
                    "a_transient_once",
                    "source produced {} {} errors, read reported {}",
                    served[k.idx()],
                    k.name(),
                    returned_err[k.idx()]
                );
            }
        }
        Ok(())
    }
}

fn note_err(counts: &mut [u64; NK], k: std::io::ErrorKind) {
    if let Some(e) = ErrKind::from_io(k) {
        counts[e.idx()] += 1
    }
}

fn res_code(r: &Res) -> u64 {
    match r {
        Res::Value(_) => 1,
        Res::CleanEnd => 2,
        Res::UnexpectedEof => 3,
        Res::IoErr(k) => 10 + ErrKind::from_io(*k).map(|e| e.idx() as u64).unwrap_or(99),
        Res::Decode(_) => 4,
        Res::InvalidLen => 5,
        Res::Other(_) => 6,
    }
}

pub fn clip(s: &str) -> String {
    if s.len() <= 60 {
        s.to_string()
    } else {
        let mut end = 57;
        while !s.is_char_boundary(end) {
            end -= 1
        }
        format!("{}…({} bytes)", &s[..end], s.len())
    }
}

impl Scenario for C15 {
    fn to_json(&self) -> Json {
        Json::obj()
            .set("family", self.family.name())
            .set("values", Json::Arr(self.values.iter().map(|v| v.to_json()).collect()))
            .set("cut", self.cut)
            .set("init_buf", self.init_buf)
            .set("max_len_mode", self.max_len_mode as u32)
            .set("use_ctx", self.use_ctx)
            .set("rewrap_at", self.rewrap_at)
            .set("knob_mid", self.knob_mid)
            .set("touch", self.touch)
            .set("scribble", self.scribble)
            .set("late_cancel", self.late_cancel)
            .set("src_repeat", self.src_repeat)
            .set("src", lane_to_json(&self.src))
            .set("caller", decides_to_json(&self.caller))
    }

    fn from_json(j: &Json) -> Result<Self, String> {
        Ok(C15 {
            family: j.get("family").and_then(|f| f.as_str()).and_then(Ty::parse).ok_or("family")?,
            values: j.get("values").and_then(|v| v.as_arr()).ok_or("values")?.iter().map(ValSpec::from_json).collect::<Result<_, _>>()?,
            cut: j.get("cut").and_then(|c| c.as_u64()).map(|c| c as u32),
            init_buf: j.get("init_buf").and_then(|c| c.as_u64()).unwrap_or(0) as u32,
            max_len_mode: j.get("max_len_mode").and_then(|c| c.as_u64()).unwrap_or(0) as u8,
            use_ctx: j.get("use_ctx").and_then(|c| c.as_bool()).unwrap_or(false),
            rewrap_at: j.get("rewrap_at").and_then(|c| c.as_u64()).map(|c| c as u32),
            knob_mid: j.get("knob_mid").and_then(|c| c.as_u64()).map(|c| c as u32),
            touch: j.get("touch").and_then(|c| c.as_bool()).unwrap_or(false),
            scribble: j.get("scribble").and_then(|c| c.as_bool()).unwrap_or(false),
            late_cancel: j.get("late_cancel").and_then(|c| c.as_bool()).unwrap_or(false),
            src_repeat: j.get("src_repeat").and_then(|c| c.as_u64()).unwrap_or(0) as u32,
            src: lane_from_json(j.get("src"))?,
            caller: decides_from_json(j.get("caller"))?,
        })
    }

    fn run(&self, obs: &mut Obs) -> Result<(), Violation> {
        let shared = Rc::new(RefCell::new(Obs::new()));
        let r = with_family(self.family, Runner { s: self, obs: shared.clone() });
        *obs = shared.replace(Obs::new());
        r.map_err(|v| v.key(format!("family={}", self.family.name())))
    }

    fn shrink(&self) -> Vec<Self> {
        let mut out = Vec::new();
        shrink_vec(&self.values, |v| out.push(C15 { values: v, ..self.clone() }));
        shrink_vec(&self.src, |v| out.push(C15 { src: v, ..self.clone() }));
        shrink_vec(&self.caller, |v| out.push(C15 { caller: v, ..self.clone() }));
        for (i, st) in self.src.iter().enumerate() {
            if !matches!(st, Step::Xfer(u32::MAX)) {
                let mut l = self.src.clone();
                l[i] = Step::Xfer(u32::MAX);
                out.push(C15 { src: l, ..self.clone() });
            }
        }
        for (i, d) in self.caller.iter().enumerate() {
            if *d == Decide::Cancel {
                let mut l = self.caller.clone();
                l[i] = Decide::Poll;
                out.push(C15 { caller: l, ..self.clone() });
            }
        }
        // per-item shrinking clones the whole scenario per candidate: only once the list is short
        for (i, v) in self.values.iter().enumerate().take(if self.values.len() <= 64 { usize::MAX } else { 0 }) {
            for sv in v.shrink() {
                let mut vs = self.values.clone();
                vs[i] = sv;
                out.push(C15 { values: vs, ..self.clone() });
            }
        }
        if self.cut.is_some() {
            out.push(C15 { cut: None, ..self.clone() });
        }
        if self.init_buf > 0 {
            out.push(C15 { init_buf: 0, ..self.clone() });
        }
        if self.max_len_mode != 0 {
            out.push(C15 { max_len_mode: 0, ..self.clone() });
        }
        if self.use_ctx {
            out.push(C15 { use_ctx: false, ..self.clone() });
        }
        if self.rewrap_at.is_some() {
            out.push(C15 { rewrap_at: None, ..self.clone() });
        }
        if self.knob_mid.is_some() {
            out.push(C15 { knob_mid: None, ..self.clone() });
        }
        if self.touch {
            out.push(C15 { touch: false, ..self.clone() });
        }
        if self.scribble {
            out.push(C15 { scribble: false, ..self.clone() });
        }
        if self.late_cancel {
            out.push(C15 { late_cancel: false, ..self.clone() });
        }
        if self.src_repeat > 0 {
            out.push(C15 { src_repeat: 0, ..self.clone() });
            out.push(C15 { src_repeat: self.src_repeat / 2, ..self.clone() });
            out.push(C15 { src_repeat: self.src_repeat - 1, ..self.clone() });
        }
        if self.family != Ty::Str && self.family != Ty::U64 {
            // simpler payload type, same shapes of frames
            for t in [Ty::U64, Ty::Str] {
                let vs: Vec<ValSpec> = self.values.iter().map(|v| ValSpec { ty: t, ..v.clone() }).collect();
                out.push(C15 { family: t, values: vs, ..self.clone() });
            }
        }
        out
    }
}

/// Candidates with chunks of the list removed: halves first, then single elements.
pub fn shrink_vec<T: Clone>(v: &[T], mut emit: impl FnMut(Vec<T>)) {
    let n = v.len();
    if n == 0 {
        return;
    }
    emit(Vec::new());
    if n >= 4 {
        emit(v[..n / 2].to_vec());
        emit(v[n / 2..].to_vec());
    }
    if n >= 2 && n <= 96 {
        for i in 0..n {
            let mut w = v.to_vec();
            w.remove(i);
            emit(w);
        }
    } else if n > 96 {
        // remove eighths
        let step = n / 8;
        for k in 0..8 {
            let mut w = v.to_vec();
            w.drain(k * step..((k + 1) * step).min(n));
            emit(w);
        }
    } else if n == 1 {
        // already emitted the empty list
    }
}

// ---------------------------------------------------------------------------------------
// generators

fn fixed_values(family: Ty, sizes: &[u32]) -> Vec<ValSpec> {
    sizes.iter().enumerate().map(|(i, s)| ValSpec { ty: family, size: *s, seed: 1000 + i as u64 }).collect()
}

fn stream_len(values: &[ValSpec]) -> usize {
    values.iter().filter_map(reference_encoding).map(|p| p.len() + 4).sum()
}

fn base(family: Ty, values: Vec<ValSpec>) -> C15 {
    C15 { family, values, cut: None, init_buf: 0, max_len_mode: 0, use_ctx: false, rewrap_at: None, knob_mid: None, touch: false, scribble: false, late_cancel: false, src_repeat: 0, src: vec![], caller: vec![] }
}

fn generate_single(r: &mut Rng, tier: Tier) -> C15 {
    let shape = gen_shape(r, tier == Tier::Thorough);
    let big = shape.big;
    let family = if big { *r.pick(BYTEY_TYS) } else { *r.pick(IO_TYS) };
    let nframes = shape.nframes;
    let values: Vec<ValSpec> = (0..nframes).map(|i| ValSpec { ty: family, size: shape.size(r, i), seed: r.next_u64() }).collect();
    let mut values = values;
    if r.chance(1, 3) {
        // byte-identical consecutive frames (a transport must not "recognise" a frame it has seen)
        for i in 1..values.len() {
            if r.chance(1, 4) {
                values[i] = values[i - 1].clone();
            }
        }
    }
    let largest = values.iter().filter_map(reference_encoding).map(|p| p.len() + 4).max().unwrap_or(0);
    let len = stream_len(&values);
    // swarm: which fault kinds are enabled in this run
    let en_short = r.chance(3, 4);
    let en_pending = r.chance(3, 4);
    let en_err = r.chance(1, 2);
    let en_cancel = r.chance(3, 4);
    let en_cut = r.chance(1, 4);
    let density = *r.pick(&[1u64, 1, 3, 8]); // out of 16
    let gran = *r.pick(&[1u32, 2, 4, 4, 16, 64, 1024]);
    let lane_max = if tier == Tier::Quick { 64 } else if r.chance(1, 4) { 200 } else { 96 };
    let lane_len = r.usize_in(0, lane_max);
    let mut src = Vec::with_capacity(lane_len);
    for _ in 0..lane_len {
        let roll = r.below(16);
        let st = if roll < density {
            // a fault
            match r.below(3) {
                0 if en_pending => Step::Pending,
                1 if en_err => Step::Err(*r.pick(&ERR_KINDS)),
                _ if en_pending => Step::Pending,
                _ => Step::Xfer(1),
            }
        } else if en_short {
            Step::Xfer(shape.xfer(r, gran, largest))
        } else {
            Step::Xfer(u32::MAX)
        };
        src.push(st);
    }
    // some runs: pure "Pending before every byte" so that cancellation can land anywhere
    if en_pending && en_cancel && r.chance(1, 5) {
        src.clear();
        for _ in 0..len.min(48) {
            src.push(Step::Pending);
            if r.chance(1, 6) {
                src.push(Step::Pending)
            }
            src.push(Step::Xfer(1 + r.below(gran.min(4) as u64) as u32));
        }
    }
    // a big frame delivered in uniform small pieces from its first to its last byte (every read is a short read)
    let mut uniform_repeat = None;
    if big && r.chance(1, if tier == Tier::Thorough { 64 } else { 4 }) {
        src = vec![Step::Xfer(*r.pick(&[1u32, 1, 2, 7, 1448, 4096]))];
        uniform_repeat = Some(1u32 << 20);
    }
    let npend = src.iter().filter(|s| **s == Step::Pending).count();
    let cancel_rate = *r.pick(&[1u64, 4, 8]);
    let caller: Vec<Decide> = (0..npend).map(|_| if en_cancel && r.chance(cancel_rate, 16) { Decide::Cancel } else { Decide::Poll }).collect();
    let cut = if en_cut && len > 0 {
        Some(if r.chance(1, 2) {
            r.below(len as u64 + 1) as u32
        } else {
            // bias: right around a frame boundary / inside a prefix
            let mut off = 0usize;
            let k = r.below(nframes as u64) as usize;
            for v in &values[..k] {
                off += reference_encoding(v).map(|p| p.len() + 4).unwrap_or(0);
            }
            (off + r.below(6) as usize).min(len) as u32
        })
    } else {
        None
    };
    C15 {
        family,
        values,
        cut,
        init_buf: if let Some(n) = shape.roomy_init { n } else if r.chance(1, 3) { r.range(1, 300) as u32 } else { 0 },
        max_len_mode: if r.chance(1, 4) { 1 + r.below(2) as u8 } else if r.chance(1, 12) { 9 } else { 0 },
        use_ctx: r.chance(1, 8),
        rewrap_at: if r.chance(1, 6) { Some(r.below(nframes as u64 + 1) as u32) } else { None },
        knob_mid: if r.chance(1, 4) { Some(r.below(3) as u32) } else { None },
        touch: r.chance(1, 3),
        scribble: r.chance(1, 3),
        late_cancel: r.chance(1, 3),
        src_repeat: uniform_repeat.unwrap_or_else(|| gen_repeat(r, shape.history || shape.marathon)),
        src,
        caller,
    }
}

/// A C15 run is either the single-task world or the two-task pipe world (reader-side oracles).
#[derive(Clone, Debug)]
pub enum S15 {
    Single(C15),
    Pipe(crate::pipe::PipeSc),
}

impl Scenario for S15 {
    fn to_json(&self) -> Json {
        match self {
            S15::Single(c) => c.to_json(),
            S15::Pipe(p) => p.to_json(),
        }
    }
    fn from_json(j: &Json) -> Result<Self, String> {
        if j.get("kind").and_then(|k| k.as_str()) == Some("pipe") {
            Ok(S15::Pipe(crate::pipe::PipeSc::from_json(j)?))
        } else {
            Ok(S15::Single(C15::from_json(j)?))
        }
    }
    fn run(&self, obs: &mut Obs) -> Result<(), Violation> {
        match self {
            S15::Single(c) => c.run(obs),
            S15::Pipe(p) => p.run(crate::pipe::Side::Reader, obs),
        }
    }
    fn shrink(&self) -> Vec<Self> {
        match self {
            S15::Single(c) => c.shrink().into_iter().map(S15::Single).collect(),
            S15::Pipe(p) => p.shrink().into_iter().map(S15::Pipe).collect(),
        }
    }
}

fn enum_depth(tier: Tier) -> u32 {
    if tier == Tier::Quick {
        7
    } else {
        9
    }
}

pub struct P15;

impl Property for P15 {
    type S = S15;
    const ID: &'static str = "C15";
    const LEVEL: &'static str = "exploration";

    fn sweeps(tier: Tier) -> Vec<S15> {
        let mut out: Vec<C15> = Vec::new();
        let fams: &[Ty] = if tier == Tier::Quick { &[Ty::Str, Ty::Borrowed] } else { &[Ty::Str, Ty::Borrowed, Ty::Bytes, Ty::U64, Ty::Tree] };
        for &fam in fams {
            let vals = fixed_values(fam, &[0, 1, 24]);
            let len = stream_len(&vals);
            // (a) cancel at every Pending position, 1-byte delivery
            for i in 0..=len + 1 {
                let mut src = Vec::new();
                for _ in 0..len + 2 {
                    src.push(Step::Pending);
                    src.push(Step::Xfer(1));
                }
                let mut caller = vec![Decide::Poll; i];
                caller.push(Decide::Cancel);
                out.push(C15 { src, caller, ..base(fam, vals.clone()) });
            }
            // (b) each transient error kind before every byte, 1-byte and whole delivery
            for kind in ERR_KINDS {
                for i in 0..=len {
                    let mut src = vec![Step::Xfer(1); i];
                    src.push(Step::Err(kind));
                    out.push(C15 { src: src.clone(), ..base(fam, vals.clone()) });
                    src.extend(std::iter::repeat(Step::Xfer(1)).take(len - i));
                    out.push(C15 { src, ..base(fam, vals.clone()) });
                }
            }
            // (b2) two errors in a row (same and different kinds) before every byte
            for (k1, k2) in [(ErrKind::WouldBlock, ErrKind::WouldBlock), (ErrKind::Interrupted, ErrKind::Other), (ErrKind::TimedOut, ErrKind::Interrupted)] {
                for i in 0..=len {
                    let mut src = vec![Step::Xfer(1); i];
                    src.push(Step::Err(k1));
                    src.push(Step::Err(k2));
                    out.push(C15 { src, ..base(fam, vals.clone()) });
                }
            }
            // (c) every cut offset x delivery granularity
            for cut in 0..=len {
                for g in [u32::MAX, 1, 3] {
                    let src = if g == u32::MAX { vec![] } else { vec![Step::Xfer(g); len + 2] };
                    out.push(C15 { cut: Some(cut as u32), src, ..base(fam, vals.clone()) });
                }
            }
            // (d) every uniform chunk size
            for k in 1..=len {
                out.push(C15 { src: vec![Step::Xfer(k as u32); len / k + 2], ..base(fam, vals.clone()) });
            }
            // (e) every pair of cancel positions on a 2-frame stream, 1-byte delivery
            let vals2 = fixed_values(fam, &[1, 3]);
            let len2 = stream_len(&vals2);
            for i in 0..len2 {
                for j in i + 1..=len2 {
                    let mut src = Vec::new();
                    for _ in 0..len2 + 2 {
                        src.push(Step::Pending);
                        src.push(Step::Xfer(1));
                    }
                    let mut caller = vec![Decide::Poll; j + 1];
                    caller[i] = Decide::Cancel;
                    caller[j] = Decide::Cancel;
                    out.push(C15 { src, caller, ..base(fam, vals2.clone()) });
                }
            }
            // (f) cancel at position i, then a transient error right after the resume
            for i in 0..=len2 {
                let mut src = Vec::new();
                for b in 0..len2 + 2 {
                    src.push(Step::Pending);
                    if b == i {
                        src.push(Step::Err(ErrKind::WouldBlock));
                    }
                    src.push(Step::Xfer(1));
                }
                let mut caller = vec![Decide::Poll; i];
                caller.push(Decide::Cancel);
                out.push(C15 { src, caller, init_buf: 7, ..base(fam, vals2.clone()) });
            }
            // (g) cut at every offset combined with a cancel just before the end is seen
            for cut in 0..=len2 {
                let mut src = Vec::new();
                for _ in 0..cut {
                    src.push(Step::Xfer(1));
                }
                src.push(Step::Pending);
                out.push(C15 { cut: Some(cut as u32), src, caller: vec![Decide::Cancel], max_len_mode: 1, ..base(fam, vals2.clone()) });
            }
        }
        // a frame of exactly the default limit (512 KiB) is a frame like any other
        for g in [u32::MAX, 65_536, 100_000] {
            let src = if g == u32::MAX { vec![] } else { vec![Step::Xfer(g); 12] };
            let vals = vec![ValSpec { ty: Ty::Bytes, size: 3, seed: 7 }, bytes_spec_with_encoding_len(DEFAULT_MAX_LEN), ValSpec { ty: Ty::Bytes, size: 3, seed: 8 }];
            out.push(C15 { src: src.clone(), ..base(Ty::Bytes, vals.clone()) });
            out.push(C15 { src, init_buf: 699_999, ..base(Ty::Bytes, vals) });
        }
        // a frame of more than 16 MiB (most significant prefix byte non-zero), whole and in 5 MiB pieces with a cancellation
        for g in [u32::MAX, 5 << 20] {
            let src = if g == u32::MAX { vec![] } else { vec![Step::Xfer(g), Step::Pending, Step::Xfer(g), Step::Xfer(g)] };
            let vals = vec![ValSpec { ty: Ty::Str, size: 3, seed: 7 }, spec_with_encoding_len(Ty::Str, (16 << 20) + 11), ValSpec { ty: Ty::Str, size: 3, seed: 8 }];
            out.push(C15 { src, caller: vec![Decide::Cancel], max_len_mode: 1, ..base(Ty::Str, vals) });
        }
        // the 'no limit' setting
        out.push(C15 { max_len_mode: 9, src: vec![Step::Xfer(1), Step::Pending, Step::Xfer(2)], caller: vec![Decide::Cancel], ..base(Ty::Str, fixed_values(Ty::Str, &[0, 5, 300])) });
        // more than 65536 frames through one reader (16-bit counters)
        out.push(base(Ty::U64, (0..65_700u64).map(|i| ValSpec { ty: Ty::U64, size: 0, seed: i }).collect()));
        let mut all: Vec<S15> = out.into_iter().map(S15::Single).collect();
        all.extend(crate::pipe::PipeSc::sweeps().into_iter().map(S15::Pipe));
        all
    }

    // exhaustive bounded enumeration: every lane of the given depth over the alphabet
    // {deliver 1, deliver 2, deliver all, Pending+keep polling, Pending+cancel, transient error}, on an 11-byte two-frame
    // stream, uncut and cut inside the second frame's prefix / payload
    fn enumerated(tier: Tier) -> u64 {
        3 * 6u64.pow(enum_depth(tier))
    }

    fn enumerate(tier: Tier, i: u64) -> S15 {
        let depth = enum_depth(tier);
        let lanes = 6u64.pow(depth);
        let cut = match i / lanes {
            0 => None,
            1 => Some(7),
            _ => Some(10),
        };
        let mut x = i % lanes;
        let mut src = Vec::with_capacity(depth as usize);
        let mut caller = Vec::new();
        for _ in 0..depth {
            match x % 6 {
                0 => src.push(Step::Xfer(1)),
                1 => src.push(Step::Xfer(2)),
                2 => src.push(Step::Xfer(u32::MAX)),
                3 => {
                    src.push(Step::Pending);
                    caller.push(Decide::Poll)
                }
                4 => {
                    src.push(Step::Pending);
                    caller.push(Decide::Cancel)
                }
                _ => src.push(Step::Err(ErrKind::WouldBlock)),
            }
            x /= 6;
        }
        S15::Single(C15 { cut, src, caller, ..base(Ty::Str, fixed_values(Ty::Str, &[0, 1])) })
    }

    fn random_runs(tier: Tier) -> u64 {
        match tier {
            Tier::Quick => 1_500_000,
            Tier::Thorough => 40_000_000,
        }
    }

    fn generate(r: &mut Rng, tier: Tier) -> S15 {
        if r.chance(1, 6) {
            return S15::Pipe(crate::pipe::PipeSc::generate(r));
        }
        S15::Single(generate_single(r, tier))
    }

    fn probes() -> Vec<usize> {
        vec![pb::cancel_with_3_of_4_prefix_bytes, pb::cancel_mid_prefix, pb::cancel_mid_payload, pb::eof_inside_prefix, pb::eof_inside_payload, pb::transient_err_mid_prefix, pb::transient_err_mid_payload, pb::frame_len_eq_max_len, pb::prefix_split_across_reads, pb::payload_split_across_reads, pb::double_cancel_same_frame, pb::clean_end_repeated, pb::large_frame_ge_64k, pb::pipe_both_blocked_resolved, pb::pipe_reader_cancel, pb::rewrap_at_boundary, pb::max_len_changed_mid_run]
    }

    fn rule() -> &'static str {
        "sweeps: one or two faults (cancel at every Pending position with 1-byte delivery, each transient error kind before every byte, \
         every cut offset x {whole,1,3}-byte delivery, every uniform chunk size, every pair of cancel positions, cancel+error, cut+cancel) \
         on fixed 2-3 frame workloads per payload family; then seeded swarm runs (1-8 frames, 14 payload families incl. borrowed types, \
         sizes around 0/23/24/255/256 head boundaries, random subsets of {short delivery, Pending, transient error, cancellation, cut}, \
         stale garbage buffer, max_len == largest frame). A run is non-trivial when at least one short delivery, Pending, error, \
         cancellation or end-of-stream landed strictly inside a frame; distinct = distinct hash of the executed event trace."
    }

    fn assumptions() -> Vec<&'static str> {
        vec![
            "payload encoding/decoding uses the library's own codec as reference (E(v)=to_vec, direct decode of the payload); C15 is about transport, not codec correctness",
            "the source is a reliable ordered byte stream: bytes are never dropped, duplicated or reordered inside the stream",
            "futures_util::io::Read is one poll_read per poll (checked for futures-util 0.3.34)",
            "no poison frames and max_len >= every written payload in C15 runs (behaviour after InvalidLen / decode errors is exercised under C14)",
            "simulated time is the event sequence number; the code under test reads no clock",
        ]
    }

    fn real_components() -> Vec<&'static str> {
        vec!["minicbor_io::AsyncReader (read, read_with, with_buffer, set_max_len)", "futures_util AsyncReadExt::read future", "minicbor Decoder + Decode impls of the payload families (incl. derive-generated)", "minicbor::encode into a Vec (reference encoding)"]
    }

    fn stub_components() -> Vec<&'static str> {
        vec!["SimAsyncSource (scripted AsyncRead: deliver k / Pending / Err(kind) / EOF)", "single-task executor with counting waker; caller lane decides poll vs drop-and-reissue", "frame builder (4-byte big-endian length ++ payload), written in the harness"]
    }
}
