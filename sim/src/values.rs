//! Workload values.  A `ValSpec` is plain data `(type, size hint, sub-seed)` that expands
//! deterministically into a concrete value of one of ~50 types; visitors receive it as
//! `&T where T: Encode<()>`.  The types used by the framed-I/O properties additionally have
//! a decode *family* (a GAT so that borrowed types such as `&str` can be decoded from the
//! reader's buffer).
//!
//! No `HashMap`/`HashSet`/`RandomState` anywhere: their iteration order is the one
//! nondeterministic behaviour in the library and would break replay.

use crate::json::Json;
use crate::rng::Rng;
use minicbor::bytes::{ByteArray, ByteSlice, ByteVec};
use minicbor::data::{Int, Tag, Tagged, Token};
use minicbor::encode::{self, Encoder, Write};
use minicbor::{Decode, Encode};
use std::collections::BTreeMap;
use std::fmt::Debug;

// ---------------------------------------------------------------------------------------
// harness-defined derived types

#[derive(Encode, Decode, Debug, Clone, PartialEq)]
pub struct Point {
    #[n(0)]
    pub x: i32,
    #[n(1)]
    pub y: u64,
}

#[derive(Encode, Decode, Debug, Clone, PartialEq)]
#[cbor(map)]
pub struct MapRec {
    #[n(0)]
    pub id: u32,
    #[n(3)]
    pub name: Option<String>,
    #[n(7)]
    pub tags: Vec<u16>,
}

#[derive(Encode, Decode, Debug, Clone, PartialEq)]
pub struct Gappy {
    #[n(1)]
    pub a: Option<u8>,
    #[n(4)]
    pub b: String,
    #[n(9)]
    pub c: Option<bool>,
}

#[derive(Encode, Decode, Debug, Clone, Copy, PartialEq)]
#[cbor(index_only)]
pub enum Color {
    #[n(0)]
    Red,
    #[n(5)]
    Green,
    #[n(300)]
    Blue,
}

#[derive(Encode, Decode, Debug, Clone, PartialEq)]
pub enum Shape {
    #[n(0)]
    Unit,
    #[n(1)]
    Circle(#[n(0)] u32),
    #[n(2)]
    Rect {
        #[n(0)]
        w: u16,
        #[n(1)]
        h: Option<u16>,
    },
}

#[derive(Encode, Decode, Debug, Clone, PartialEq)]
#[cbor(transparent)]
pub struct Wrapper(#[n(0)] pub String);

#[derive(Encode, Decode, Debug, Clone, PartialEq)]
pub struct Borrowed<'a> {
    #[b(0)]
    pub name: &'a str,
    #[b(1)]
    #[cbor(with = "minicbor::bytes")]
    pub data: &'a [u8],
    #[n(2)]
    pub n: u64,
}

#[derive(Encode, Decode, Debug, Clone, PartialEq)]
pub enum Tree {
    #[n(0)]
    Leaf(#[n(0)] u32),
    #[n(1)]
    Node(#[n(0)] Box<Tree>, #[n(1)] Box<Tree>),
    #[n(2)]
    Many(#[n(0)] Vec<Tree>),
}

#[derive(Encode, Decode, Debug, Clone, PartialEq)]
#[cbor(tag(1234))]
pub struct TaggedRec {
    #[n(0)]
    #[cbor(tag(42))]
    pub v: u8,
    #[n(1)]
    pub s: Option<String>,
}

/// A scripted sequence of raw `Encoder` method calls (covers the encoder API that the
/// `Encode` impls do not reach: indefinite containers, simple values, half floats, tags).
#[derive(Debug, Clone, PartialEq)]
pub enum Op {
    U8(u8),
    U16(u16),
    U32(u32),
    U64(u64),
    I8(i8),
    I16(i16),
    I32(i32),
    I64(i64),
    Int(i128),
    Null,
    Undefined,
    Simple(u8),
    F16(f32),
    F32(f32),
    F64(f64),
    Bool(bool),
    Char(char),
    Tag(u64),
    Bytes(Vec<u8>),
    Str(String),
    Array(u64),
    Map(u64),
    BeginArray,
    BeginBytes,
    BeginMap,
    BeginStr,
    End,
}

#[derive(Debug, Clone, PartialEq)]
pub struct EncOps(pub Vec<Op>);

impl<C> Encode<C> for EncOps {
    fn encode<W: Write>(&self, e: &mut Encoder<W>, _: &mut C) -> Result<(), encode::Error<W::Error>> {
        for op in &self.0 {
            match op {
                Op::U8(x) => e.u8(*x)?,
                Op::U16(x) => e.u16(*x)?,
                Op::U32(x) => e.u32(*x)?,
                Op::U64(x) => e.u64(*x)?,
                Op::I8(x) => e.i8(*x)?,
                Op::I16(x) => e.i16(*x)?,
                Op::I32(x) => e.i32(*x)?,
                Op::I64(x) => e.i64(*x)?,
                Op::Int(x) => match Int::try_from(*x) {
                    Ok(i) => e.int(i)?,
                    Err(_) => e.null()?,
                },
                Op::Null => e.null()?,
                Op::Undefined => e.undefined()?,
                Op::Simple(x) => e.simple(*x)?,
                Op::F16(x) => e.f16(*x)?,
                Op::F32(x) => e.f32(*x)?,
                Op::F64(x) => e.f64(*x)?,
                Op::Bool(x) => e.bool(*x)?,
                Op::Char(x) => e.char(*x)?,
                Op::Tag(x) => e.tag(Tag::new(*x))?,
                Op::Bytes(x) => e.bytes(x)?,
                Op::Str(x) => e.str(x)?,
                Op::Array(x) => e.array(*x)?,
                Op::Map(x) => e.map(*x)?,
                Op::BeginArray => e.begin_array()?,
                Op::BeginBytes => e.begin_bytes()?,
                Op::BeginMap => e.begin_map()?,
                Op::BeginStr => e.begin_str()?,
                Op::End => e.end()?,
            };
        }
        Ok(())
    }
}

/// A value with an EMPTY encoding: `Encode` writes nothing, `Decode` reads nothing.  Framed, it is `00 00 00 00`: a complete,
/// zero-length frame that carries a value like any other.
#[derive(Debug, Clone, PartialEq)]
pub struct Nothing;

impl<C> Encode<C> for Nothing {
    fn encode<W: Write>(&self, _: &mut Encoder<W>, _: &mut C) -> Result<(), encode::Error<W::Error>> {
        Ok(())
    }
}

impl<'b, C> Decode<'b, C> for Nothing {
    fn decode(_: &mut minicbor::Decoder<'b>, _: &mut C) -> Result<Self, minicbor::decode::Error> {
        Ok(Nothing)
    }
}

/// A value whose encoding is NOT idempotent: every `encode` call on the same instance hands out the next ticket number (a
/// sequence counter, a timestamp, an interning table -- what `encode`'s `&mut` context and interior mutability exist for).
/// A fresh instance starts at `base`, so one `encode` per write gives the reference encoding; a transport that encodes a
/// value twice (measure, then encode) announces one number and sends another -- of another width when `base` is 23, 255, ...
#[derive(Debug)]
pub struct Ticket {
    pub base: u64,
    pub taken: std::cell::Cell<u64>,
    /// bytes of padding after the number (0 = the bare number): makes the encoding as long as a run needs it to be
    pub pad: usize,
}

impl<C> Encode<C> for Ticket {
    fn encode<W: Write>(&self, e: &mut Encoder<W>, _: &mut C) -> Result<(), encode::Error<W::Error>> {
        let k = self.taken.get();
        self.taken.set(k + 1);
        if self.pad == 0 {
            e.u64(self.base + k)?;
        } else {
            e.array(2)?.u64(self.base + k)?.bytes(&vec![0x7e; self.pad])?;
        }
        Ok(())
    }
}

/// A value whose `Encode` impl calls back into the library: it builds embedded CBOR (tag 24) by running `minicbor::to_vec` on its
/// content while it is itself being encoded (re-entrancy on the calling thread).
#[derive(Debug)]
pub struct Nested(pub String);

impl<C> Encode<C> for Nested {
    fn encode<W: Write>(&self, e: &mut Encoder<W>, _: &mut C) -> Result<(), encode::Error<W::Error>> {
        let inner = minicbor::to_vec(&self.0).map_err(|_| encode::Error::message("Nested: inner to_vec failed"))?;
        e.tag(Tag::new(24))?.bytes(&inner)?;
        Ok(())
    }
}

/// A record whose `Encode` impl annotates every error of its fields with `Error::with_message` (the documented way to add
/// context): the kind of the error -- in particular "this is a write error" -- must survive the annotation.
#[derive(Debug)]
pub struct Annotated(pub u32, pub String);

impl<C> Encode<C> for Annotated {
    fn encode<W: Write>(&self, e: &mut Encoder<W>, ctx: &mut C) -> Result<(), encode::Error<W::Error>> {
        e.array(2).map_err(|er| er.with_message("Annotated: header"))?;
        self.0.encode(e, ctx).map_err(|er| er.with_message("Annotated: field 0"))?;
        self.1.encode(e, ctx).map_err(|er| er.with_message(format!("Annotated: field 1 ({} bytes)", self.1.len())))?;
        Ok(())
    }
}

/// A CBOR *sequence*: the numbers one after the other without any enclosing item.  Its `Decode` impl reads until the end of
/// the input it is given, so it notices every byte of the window it is handed -- a stale tail behind the frame changes it.
#[derive(Debug, Clone, PartialEq)]
pub struct CborSeq(pub Vec<u64>);

impl<C> Encode<C> for CborSeq {
    fn encode<W: Write>(&self, e: &mut Encoder<W>, _: &mut C) -> Result<(), encode::Error<W::Error>> {
        for x in &self.0 {
            e.u64(*x)?;
        }
        Ok(())
    }
}

impl<'b, C> Decode<'b, C> for CborSeq {
    fn decode(d: &mut minicbor::Decoder<'b>, _: &mut C) -> Result<Self, minicbor::decode::Error> {
        let mut v = Vec::new();
        while d.position() < d.input().len() {
            v.push(d.u64()?);
        }
        Ok(CborSeq(v))
    }
}

/// A value whose `Encode` impl writes `partial` bytes and then fails with a message error.
#[derive(Debug, Clone, PartialEq)]
pub struct FailEncode {
    pub partial: usize,
}

impl<C> Encode<C> for FailEncode {
    fn encode<W: Write>(&self, e: &mut Encoder<W>, _: &mut C) -> Result<(), encode::Error<W::Error>> {
        if self.partial > 0 {
            e.bytes(&vec![0xEEu8; self.partial])?;
        }
        Err(encode::Error::message("FailEncode: refused by the value"))
    }
}

// ---------------------------------------------------------------------------------------
// type tags

macro_rules! tys {
    ($($id:ident),* $(,)?) => {
        #[derive(Clone, Copy, Debug, PartialEq, Eq, PartialOrd, Ord)]
        pub enum Ty { $($id),* }
        pub const ALL_TYS: &[Ty] = &[$(Ty::$id),*];
        impl Ty {
            pub fn name(self) -> &'static str { match self { $(Ty::$id => stringify!($id)),* } }
            pub fn parse(s: &str) -> Option<Ty> { match s { $(stringify!($id) => Some(Ty::$id),)* _ => None } }
        }
    };
}

tys!(
    U8, U16, U32, U64, I8, I16, I32, I64, Usize, Isize, Bool, Char, F32, F64, Unit, Str, String, Bytes, ByteSliceRef,
    ByteArr8, OptU32, OptStr, ResOk, ResErr, Tuple1, Tuple2, Tuple3, Tuple8, ArrU16x3, ArrStrx2, VecU32, VecString,
    VecVecU8, BTreeMapU32Str, Duration, IpAddr, SocketAddr, IntTy, TaggedU32, Tokens, Point, MapRec, Gappy, Color,
    Shape, Wrapper, Borrowed, Tree, TaggedRec, EncOps, BoxStr, CowStr, RangeU32, BoundI16, Wrapping, CString, Path, Empty,
    ArrIterExact, ArrIterFilter, MapIterExact, MapIterFilter, BTreeSetU16, VecDequeStr, LinkedListU8, BinaryHeapI32, HashMapFixed,
    HashSetFixed, SystemTime, CellU16, RefCellStr, NonZeroU32, AtomicI64, TagTy, SocketAddrV6, RangeInclusiveI8, Phantom, Slice, SelfDesc, Embedded, Nothing, Ticket, Nested, Annotated, CborSeq, FailAfter,
);

#[derive(Clone, Debug, PartialEq, Eq)]
pub struct ValSpec {
    pub ty: Ty,
    pub size: u32,
    pub seed: u64,
}

impl ValSpec {
    pub fn to_json(&self) -> Json {
        Json::obj().set("ty", self.ty.name()).set("size", self.size).set("seed", self.seed)
    }
    pub fn from_json(j: &Json) -> Result<ValSpec, String> {
        let ty = j.get("ty").and_then(|t| t.as_str()).and_then(Ty::parse).ok_or("bad ty")?;
        let size = j.get("size").and_then(|t| t.as_u64()).ok_or("bad size")? as u32;
        let seed = j.get("seed").and_then(|t| t.as_u64()).ok_or("bad seed")?;
        Ok(ValSpec { ty, size, seed })
    }
    /// Smaller / simpler variants of the same value for the minimiser.
    pub fn shrink(&self) -> Vec<ValSpec> {
        let mut out = Vec::new();
        if self.size > 0 {
            out.push(ValSpec { size: 0, ..self.clone() });
            if self.size > 1 {
                out.push(ValSpec { size: self.size / 2, ..self.clone() });
                out.push(ValSpec { size: self.size - 1, ..self.clone() });
            }
        }
        if self.seed != 0 {
            out.push(ValSpec { seed: 0, ..self.clone() });
        }
        out
    }
}

/// Sizes around the CBOR head boundaries; `big` additionally allows the 16-bit boundary.
pub fn gen_size(r: &mut Rng, big: bool) -> u32 {
    if r.chance(1, 24) {
        // around allocator / chunking boundaries
        return match r.below(5) {
            0 => r.range(4085, 4100) as u32,
            1 => r.range(8180, 8196) as u32,
            2 => r.range(16_375, 16_390) as u32,
            3 => r.range(4101, 9000) as u32,
            _ => r.range(9001, 20_000) as u32,
        };
    }
    match r.below(if big { 12 } else { 10 }) {
        0 => 0,
        1 => 1,
        2 => r.range(2, 8) as u32,
        3 => r.range(20, 26) as u32,
        4 => r.range(9, 40) as u32,
        5 => r.range(250, 260) as u32,
        6 => r.range(41, 300) as u32,
        7 => r.range(0, 5) as u32,
        8 => r.range(0, 24) as u32,
        9 => r.range(300, 1200) as u32,
        10 => r.range(65_530, 65_540) as u32,
        _ => r.range(1_200, 70_000) as u32,
    }
}

/// Byte-string-like types whose `size` is (about) the encoded length: used when a run needs a genuinely large frame.
pub const BYTEY_TYS: &[Ty] = &[Ty::Str, Ty::String, Ty::Bytes, Ty::ByteSliceRef];

/// Sizes of 64 KiB and more: around the 2-byte/4-byte head boundary, past typical 64 KiB / 128 KiB chunk sizes.
pub fn gen_big_size(r: &mut Rng) -> u32 {
    match r.below(6) {
        0 => r.range(65_530, 65_545) as u32,
        1 => r.range(65_536, 70_000) as u32,
        2 => r.range(70_000, 140_000) as u32,
        3 => r.range(131_060, 131_080) as u32,
        4 => r.range(100_000, 100_010) as u32,
        _ => r.range(140_000, 200_000) as u32,
    }
}

/// A byte-string value whose encoding is exactly `target` bytes long (head included).
pub fn bytes_spec_with_encoding_len(target: usize) -> ValSpec {
    spec_with_encoding_len(Ty::Bytes, target)
}

/// The same for any string-like type (`Ty::Str` renders and compares much faster than a byte vector).
pub fn spec_with_encoding_len(ty: Ty, target: usize) -> ValSpec {
    for head in [1usize, 2, 3, 5, 9] {
        if target < head {
            continue;
        }
        let spec = ValSpec { ty, size: (target - head) as u32, seed: 4242 };
        if reference_encoding(&spec).map(|p| p.len()) == Some(target) {
            return spec;
        }
    }
    panic!("no byte string encodes to {target} bytes");
}

/// The limit every reader and writer is created with ("a max. buffer size of 512KiB").
pub const DEFAULT_MAX_LEN: usize = 512 * 1024;

/// Overall shape of a framed-I/O run (shared by C14, C15, C16).
pub struct RunShape {
    /// item 0 is a frame of 64 KiB or more (followed by a few to a couple of dozen small ones)
    pub big: bool,
    /// 17..=48 small frames on one object (counters, adaptive heuristics, "the N-th call")
    pub history: bool,
    /// 257..=600 tiny frames
    pub marathon: bool,
    pub nframes: usize,
    pub profile: u64,
    /// hand the object a recycled buffer far larger than any frame of the run
    pub roomy_init: Option<u32>,
    /// positions at which a long run of small frames is interrupted by a much larger one (size spikes)
    pub spikes: Vec<usize>,
}

pub fn gen_shape(r: &mut Rng, thorough: bool) -> RunShape {
    let big = r.chance(1, if thorough { 100 } else { 150 });
    let marathon = !big && r.chance(1, 150);
    let history = !big && !marathon && r.chance(1, 20);
    let max_frames = if thorough && r.chance(1, 4) { 20 } else { 8 };
    let nframes = if big {
        1 + *r.pick(&[0u64, 0, 1, 3, 16, 17, 24])
    } else if marathon {
        r.range(257, 600)
    } else if history {
        r.range(17, 48)
    } else {
        1 + r.below(max_frames)
    } as usize;
    let profile = if marathon || history { r.below(2) } else { r.below(4) };
    let roomy_init = if (history || big) && r.chance(1, 2) { Some(r.range(65_600, 200_000) as u32) } else { None };
    let mut spikes = Vec::new();
    if (history || marathon) && r.chance(1, 2) {
        for _ in 0..r.range(1, 4) {
            spikes.push(r.below(nframes as u64) as usize);
        }
        if marathon && r.chance(1, 2) {
            // around the 8-bit wrap of a per-object frame counter
            spikes.push(254 + r.below(4) as usize);
        }
    }
    RunShape { big, history, marathon, nframes, profile, roomy_init, spikes }
}

/// How often a fault lane is replayed: long histories get fault storms that last as long as the history does.
pub fn gen_repeat(r: &mut Rng, long_history: bool) -> u32 {
    if long_history {
        *r.pick(&[0u32, 2, 10, 40, 120])
    } else if r.chance(1, 10) {
        1 + r.below(4) as u32
    } else {
        0
    }
}

impl RunShape {
    /// size parameter of item `idx`
    pub fn size(&self, r: &mut Rng, idx: usize) -> u32 {
        if self.big {
            return if idx == 0 { gen_big_size(r) } else { r.below(30) as u32 };
        }
        if self.spikes.contains(&idx) {
            return 64 + r.below(3000) as u32;
        }
        match self.profile {
            0 => r.below(4) as u32,
            1 => r.below(30) as u32,
            _ => gen_size(r, false),
        }
    }
    /// transfer size of one short read / short write
    pub fn xfer(&self, r: &mut Rng, gran: u32, largest_frame: usize) -> u32 {
        if !self.big {
            return 1 + r.below(gran as u64) as u32;
        }
        let m = largest_frame.max(2) as u64;
        match r.below(7) {
            0 => 1 + r.below(gran as u64) as u32,
            1 => *r.pick(&[4095u32, 4096, 4097, 16_383, 16_384, 16_385, 65_535, 65_536, 65_537, 131_072]),
            2 => (m - r.below(8).min(m - 1)) as u32,
            3 => 1 + r.below(m) as u32,
            4 if m > 65_540 => (65_536 + r.below(m - 65_536)) as u32,
            5 => 1 + r.below(70_000) as u32,
            _ => u32::MAX,
        }
    }
}

pub fn gen_spec(r: &mut Rng, tys: &[Ty], big: bool) -> ValSpec {
    ValSpec { ty: *r.pick(tys), size: gen_size(r, big), seed: r.next_u64() }
}

// ---------------------------------------------------------------------------------------
// value construction

fn boundary_u64(r: &mut Rng) -> u64 {
    const B: [u64; 12] = [0, 23, 24, 255, 256, 65_535, 65_536, 0xffff_ffff, 0x1_0000_0000, u64::MAX, i64::MAX as u64, 1000];
    match r.below(4) {
        0 => *r.pick(&B),
        1 => r.pick(&B).wrapping_add(r.below(3)).wrapping_sub(1),
        2 => r.below(300),
        _ => r.next_u64() >> r.below(64),
    }
}

fn boundary_i64(r: &mut Rng) -> i64 {
    let m = boundary_u64(r);
    if r.chance(1, 2) {
        (m >> 1) as i64
    } else {
        // -1 - n, around the same boundaries
        -1i64 - ((m >> 1) as i64)
    }
}

fn gen_string(r: &mut Rng, n: usize) -> String {
    let mut s = String::with_capacity(n + 4);
    let fancy = r.chance(1, 4);
    while s.len() < n {
        if fancy && r.chance(1, 6) && s.len() + 4 <= n {
            s.push(*r.pick(&['é', 'ß', '水', '🦀', 'ж']));
        } else {
            s.push((b'a' + r.below(26) as u8) as char);
        }
    }
    s
}

fn gen_bytes(r: &mut Rng, n: usize) -> Vec<u8> {
    let mut v = vec![0u8; n];
    r.fill(&mut v);
    v
}

fn gen_tree(r: &mut Rng, budget: &mut u32, depth: u32) -> Tree {
    if *budget == 0 || depth > 24 {
        return Tree::Leaf(boundary_u64(r) as u32);
    }
    *budget -= 1;
    match r.below(4) {
        0 => Tree::Leaf(boundary_u64(r) as u32),
        1 | 2 => {
            let a = gen_tree(r, budget, depth + 1);
            let b = gen_tree(r, budget, depth + 1);
            Tree::Node(Box::new(a), Box::new(b))
        }
        _ => {
            let k = r.below(4);
            Tree::Many((0..k).map(|_| gen_tree(r, budget, depth + 1)).collect())
        }
    }
}

fn gen_ops(r: &mut Rng, n: usize) -> Vec<Op> {
    let mut ops = Vec::new();
    for _ in 0..n.clamp(1, 40) {
        let op = match r.below(27) {
            0 => Op::U8(boundary_u64(r) as u8),
            1 => Op::U16(boundary_u64(r) as u16),
            2 => Op::U32(boundary_u64(r) as u32),
            3 => Op::U64(boundary_u64(r)),
            4 => Op::I8(boundary_i64(r) as i8),
            5 => Op::I16(boundary_i64(r) as i16),
            6 => Op::I32(boundary_i64(r) as i32),
            7 => Op::I64(boundary_i64(r)),
            8 => Op::Int(if r.chance(1, 2) { boundary_u64(r) as i128 } else { -1 - boundary_u64(r) as i128 }),
            9 => Op::Null,
            10 => Op::Undefined,
            11 => Op::Simple(r.below(256) as u8),
            12 => Op::F16(f32::from_bits(r.next_u64() as u32)),
            13 => Op::F32(f32::from_bits(r.next_u64() as u32)),
            14 => Op::F64(f64::from_bits(r.next_u64())),
            15 => Op::Bool(r.chance(1, 2)),
            16 => Op::Char(char::from_u32(r.below(0x11_0000) as u32).unwrap_or('x')),
            17 => Op::Tag(boundary_u64(r)),
            18 => {
                let k = gen_size(r, false).min(300) as usize;
                Op::Bytes(gen_bytes(r, k))
            }
            19 => {
                let k = gen_size(r, false).min(300) as usize;
                Op::Str(gen_string(r, k))
            }
            20 => Op::Array(boundary_u64(r)),
            21 => Op::Map(boundary_u64(r)),
            22 => Op::BeginArray,
            23 => Op::BeginBytes,
            24 => Op::BeginMap,
            25 => Op::BeginStr,
            _ => Op::End,
        };
        ops.push(op);
    }
    ops
}

fn gen_tokens(r: &mut Rng, n: usize, bytes: &[u8], text: &str) -> Vec<Token<'static>> {
    // Tokens borrow; we only need 'static-free borrows for the call, so leak-free trick:
    // build from slices of the caller-provided buffers, then transmute lifetimes is NOT used;
    // instead the caller passes buffers that outlive the tokens.  Here: lengths only.
    let _ = (bytes, text);
    let mut t = Vec::new();
    for _ in 0..n.clamp(1, 40) {
        t.push(match r.below(22) {
            0 => Token::Bool(r.chance(1, 2)),
            1 => Token::U8(boundary_u64(r) as u8),
            2 => Token::U16(boundary_u64(r) as u16),
            3 => Token::U32(boundary_u64(r) as u32),
            4 => Token::U64(boundary_u64(r)),
            5 => Token::I8(boundary_i64(r) as i8),
            6 => Token::I16(boundary_i64(r) as i16),
            7 => Token::I32(boundary_i64(r) as i32),
            8 => Token::I64(boundary_i64(r)),
            9 => Token::Int(Int::from(boundary_i64(r))),
            10 => Token::F16(1.5),
            11 => Token::F32(f32::from_bits(r.next_u64() as u32)),
            12 => Token::F64(f64::from_bits(r.next_u64())),
            13 => Token::Array(boundary_u64(r)),
            14 => Token::Map(boundary_u64(r)),
            15 => Token::Tag(Tag::new(boundary_u64(r))),
            16 => Token::Simple(r.below(20) as u8),
            17 => Token::Break,
            18 => Token::Null,
            19 => Token::Undefined,
            20 => *r.pick(&[Token::BeginBytes, Token::BeginString, Token::BeginArray, Token::BeginMap]),
            _ => {
                if r.chance(1, 2) {
                    Token::Bytes(STATIC_BYTES.get(..r.below(STATIC_BYTES.len() as u64 + 1) as usize).unwrap_or(&[]))
                } else {
                    let k = r.below(STATIC_TEXT.len() as u64 + 1) as usize;
                    Token::String(&STATIC_TEXT[..k])
                }
            }
        });
    }
    t
}

static STATIC_BYTES: [u8; 300] = {
    let mut a = [0u8; 300];
    let mut i = 0;
    while i < 300 {
        a[i] = (i * 7 + 3) as u8;
        i += 1;
    }
    a
};
static STATIC_TEXT: &str = "abcdefghijklmnopqrstuvwxyzabcdefghijklmnopqrstuvwxyzabcdefghijklmnopqrstuvwxyzabcdefghijklmnopqrstuvwxyzabcdefghijklmnopqrstuvwxyzabcdefghijklmnopqrstuvwxyzabcdefghijklmnopqrstuvwxyzabcdefghijklmnopqrstuvwxyzabcdefghijklmnopqrstuvwxyzabcdefghijklmnopqrstuvwxyzabcdefghijklmnopqrstuvwxyz";

/// Deterministic hasher state for HashMap/HashSet workloads (SipHash with fixed keys).
pub type FixedState = std::hash::BuildHasherDefault<std::collections::hash_map::DefaultHasher>;

pub trait EncVisitor {
    type Out;
    fn visit<T: Encode<()> + Debug>(self, v: &T) -> Self::Out;
}

/// Expand `spec` to its concrete value and hand it to the visitor.
pub fn with_value<V: EncVisitor>(spec: &ValSpec, vis: V) -> V::Out {
    let mut rng = Rng::new(spec.seed);
    let r = &mut rng;
    let n = spec.size as usize;
    match spec.ty {
        Ty::U8 => vis.visit(&(boundary_u64(r) as u8)),
        Ty::U16 => vis.visit(&(boundary_u64(r) as u16)),
        Ty::U32 => vis.visit(&(boundary_u64(r) as u32)),
        Ty::U64 => vis.visit(&boundary_u64(r)),
        Ty::I8 => vis.visit(&(boundary_i64(r) as i8)),
        Ty::I16 => vis.visit(&(boundary_i64(r) as i16)),
        Ty::I32 => vis.visit(&(boundary_i64(r) as i32)),
        Ty::I64 => vis.visit(&boundary_i64(r)),
        Ty::Usize => vis.visit(&(boundary_u64(r) as usize)),
        Ty::Isize => vis.visit(&(boundary_i64(r) as isize)),
        Ty::Bool => vis.visit(&r.chance(1, 2)),
        Ty::Char => vis.visit(&char::from_u32(r.below(0x11_0000) as u32).unwrap_or('q')),
        Ty::F32 => vis.visit(&f32::from_bits(r.next_u64() as u32)),
        Ty::F64 => vis.visit(&f64::from_bits(r.next_u64())),
        Ty::Unit => vis.visit(&()),
        Ty::Str => {
            let s = gen_string(r, n);
            vis.visit(&s.as_str())
        }
        Ty::String => vis.visit(&gen_string(r, n)),
        Ty::Bytes => vis.visit(&ByteVec::from(gen_bytes(r, n))),
        Ty::ByteSliceRef => {
            let b = gen_bytes(r, n);
            let s: &ByteSlice = b.as_slice().into();
            vis.visit(&s)
        }
        Ty::ByteArr8 => {
            let mut a = [0u8; 8];
            r.fill(&mut a);
            vis.visit(&ByteArray::from(a))
        }
        Ty::OptU32 => vis.visit(&if r.chance(1, 3) { None } else { Some(boundary_u64(r) as u32) }),
        Ty::OptStr => {
            let s = gen_string(r, n);
            vis.visit(&if r.chance(1, 4) { None } else { Some(s.as_str()) })
        }
        Ty::ResOk => vis.visit(&Ok::<u32, String>(boundary_u64(r) as u32)),
        Ty::ResErr => vis.visit(&Err::<u32, String>(gen_string(r, n))),
        Ty::Tuple1 => vis.visit(&(boundary_u64(r),)),
        Ty::Tuple2 => vis.visit(&(boundary_i64(r), gen_string(r, n))),
        Ty::Tuple3 => {
            let s = gen_string(r, n);
            vis.visit(&(boundary_u64(r) as u32, s.as_str(), r.chance(1, 2)))
        }
        Ty::Tuple8 => vis.visit(&(
            boundary_u64(r) as u8,
            boundary_u64(r) as u16,
            boundary_u64(r) as u32,
            boundary_u64(r),
            boundary_i64(r),
            r.chance(1, 2),
            gen_string(r, n.min(64)),
            (),
        )),
        Ty::ArrU16x3 => vis.visit(&[boundary_u64(r) as u16, boundary_u64(r) as u16, boundary_u64(r) as u16]),
        Ty::ArrStrx2 => vis.visit(&[gen_string(r, n), gen_string(r, n / 2)]),
        Ty::VecU32 => vis.visit(&(0..n.min(20_000)).map(|_| boundary_u64(r) as u32).collect::<Vec<u32>>()),
        Ty::VecString => {
            let k = n.min(300);
            vis.visit(&(0..k).map(|i| gen_string(r, i % 30)).collect::<Vec<String>>())
        }
        Ty::VecVecU8 => {
            let k = n.min(300);
            vis.visit(&(0..k).map(|i| gen_bytes(r, i % 9)).collect::<Vec<Vec<u8>>>())
        }
        Ty::BTreeMapU32Str => {
            let k = n.min(300);
            vis.visit(&(0..k).map(|i| (boundary_u64(r) as u32, gen_string(r, i % 12))).collect::<BTreeMap<u32, String>>())
        }
        Ty::Duration => vis.visit(&std::time::Duration::new(boundary_u64(r), (r.below(1_000_000_000)) as u32)),
        Ty::IpAddr => {
            if r.chance(1, 2) {
                vis.visit(&std::net::IpAddr::V4(std::net::Ipv4Addr::from(r.next_u64() as u32)))
            } else {
                vis.visit(&std::net::IpAddr::V6(std::net::Ipv6Addr::from((r.next_u64() as u128) << 64 | r.next_u64() as u128)))
            }
        }
        Ty::SocketAddr => vis.visit(&std::net::SocketAddr::new(
            std::net::IpAddr::V4(std::net::Ipv4Addr::from(r.next_u64() as u32)),
            boundary_u64(r) as u16,
        )),
        Ty::IntTy => {
            let i = if r.chance(1, 2) { Int::from(boundary_u64(r)) } else { Int::from(boundary_i64(r)) };
            vis.visit(&i)
        }
        Ty::TaggedU32 => vis.visit(&Tagged::<0x1_0000, u32>::from(boundary_u64(r) as u32)),
        Ty::Tokens => {
            let t = gen_tokens(r, n, &[], "");
            vis.visit(&TokenSeq(t))
        }
        Ty::Point => vis.visit(&Point { x: boundary_i64(r) as i32, y: boundary_u64(r) }),
        Ty::MapRec => vis.visit(&MapRec {
            id: boundary_u64(r) as u32,
            name: if r.chance(1, 3) { None } else { Some(gen_string(r, n)) },
            tags: (0..r.below(5)).map(|_| boundary_u64(r) as u16).collect(),
        }),
        Ty::Gappy => vis.visit(&Gappy {
            a: if r.chance(1, 2) { None } else { Some(boundary_u64(r) as u8) },
            b: gen_string(r, n),
            c: if r.chance(1, 2) { None } else { Some(r.chance(1, 2)) },
        }),
        Ty::Color => vis.visit(r.pick(&[Color::Red, Color::Green, Color::Blue])),
        Ty::Shape => vis.visit(&match r.below(3) {
            0 => Shape::Unit,
            1 => Shape::Circle(boundary_u64(r) as u32),
            _ => Shape::Rect { w: boundary_u64(r) as u16, h: if r.chance(1, 2) { None } else { Some(boundary_u64(r) as u16) } },
        }),
        Ty::Wrapper => vis.visit(&Wrapper(gen_string(r, n))),
        Ty::Borrowed => {
            let s = gen_string(r, n);
            let b = gen_bytes(r, n / 2);
            vis.visit(&Borrowed { name: &s, data: &b, n: boundary_u64(r) })
        }
        Ty::Tree => {
            let mut budget = (n as u32).min(400);
            vis.visit(&gen_tree(r, &mut budget, 0))
        }
        Ty::TaggedRec => vis.visit(&TaggedRec { v: boundary_u64(r) as u8, s: if r.chance(1, 2) { None } else { Some(gen_string(r, n)) } }),
        Ty::EncOps => vis.visit(&EncOps(gen_ops(r, n))),
        Ty::BoxStr => vis.visit(&gen_string(r, n).into_boxed_str()),
        Ty::CowStr => vis.visit(&std::borrow::Cow::<str>::Owned(gen_string(r, n))),
        Ty::RangeU32 => vis.visit(&(boundary_u64(r) as u32..boundary_u64(r) as u32)),
        Ty::BoundI16 => vis.visit(&match r.below(3) {
            0 => std::ops::Bound::Included(boundary_i64(r) as i16),
            1 => std::ops::Bound::Excluded(boundary_i64(r) as i16),
            _ => std::ops::Bound::Unbounded,
        }),
        Ty::Wrapping => vis.visit(&std::num::Wrapping(boundary_u64(r))),
        Ty::CString => {
            let s = gen_string(r, n);
            vis.visit(&std::ffi::CString::new(s).unwrap_or_default())
        }
        Ty::Path => vis.visit(&std::path::PathBuf::from(gen_string(r, n))),
        Ty::ArrIterExact => {
            let v: Vec<u32> = (0..n.min(300)).map(|_| boundary_u64(r) as u32).collect();
            vis.visit(&minicbor::encode::ArrayIter::new(v.iter()))
        }
        Ty::ArrIterFilter => {
            // inexact size_hint => indefinite-length array
            let v: Vec<u32> = (0..n.min(300)).map(|_| boundary_u64(r) as u32).collect();
            vis.visit(&minicbor::encode::ArrayIter::new(v.iter().filter(|x| **x % 3 != 1)))
        }
        Ty::MapIterExact => {
            let v: Vec<(u32, String)> = (0..n.min(200)).map(|i| (boundary_u64(r) as u32, gen_string(r, i % 11))).collect();
            vis.visit(&minicbor::encode::MapIter::new(v.iter().map(|(k, v)| (*k, v.as_str()))))
        }
        Ty::MapIterFilter => {
            let v: Vec<(String, u64)> = (0..n.min(200)).map(|i| (gen_string(r, i % 9), boundary_u64(r))).collect();
            vis.visit(&minicbor::encode::MapIter::new(v.iter().filter(|(_, x)| *x % 5 != 0).map(|(k, v)| (k.as_str(), *v))))
        }
        Ty::BTreeSetU16 => vis.visit(&(0..n.min(300)).map(|_| boundary_u64(r) as u16).collect::<std::collections::BTreeSet<u16>>()),
        Ty::VecDequeStr => vis.visit(&(0..n.min(100)).map(|i| gen_string(r, i % 30)).collect::<std::collections::VecDeque<String>>()),
        Ty::LinkedListU8 => vis.visit(&(0..n.min(300)).map(|_| boundary_u64(r) as u8).collect::<std::collections::LinkedList<u8>>()),
        Ty::BinaryHeapI32 => vis.visit(&(0..n.min(300)).map(|_| boundary_i64(r) as i32).collect::<std::collections::BinaryHeap<i32>>()),
        Ty::HashMapFixed => {
            // fixed hasher: iteration order is a pure function of the keys (RandomState would break replay)
            let mut m: std::collections::HashMap<u32, String, FixedState> = Default::default();
            for i in 0..n.min(100) {
                m.insert(boundary_u64(r) as u32, gen_string(r, i % 12));
            }
            vis.visit(&m)
        }
        Ty::HashSetFixed => {
            let mut m: std::collections::HashSet<String, FixedState> = Default::default();
            for i in 0..n.min(100) {
                m.insert(gen_string(r, i % 20));
            }
            vis.visit(&m)
        }
        Ty::SystemTime => vis.visit(&(std::time::UNIX_EPOCH + std::time::Duration::new(boundary_u64(r) >> 8, r.below(1_000_000_000) as u32))),
        Ty::CellU16 => vis.visit(&std::cell::Cell::new(boundary_u64(r) as u16)),
        Ty::RefCellStr => vis.visit(&std::cell::RefCell::new(gen_string(r, n))),
        Ty::NonZeroU32 => vis.visit(&std::num::NonZeroU32::new((boundary_u64(r) as u32).max(1)).unwrap()),
        Ty::AtomicI64 => vis.visit(&std::sync::atomic::AtomicI64::new(boundary_i64(r))),
        Ty::TagTy => vis.visit(&Tag::new(boundary_u64(r))),
        Ty::SocketAddrV6 => vis.visit(&std::net::SocketAddrV6::new(
            std::net::Ipv6Addr::from((r.next_u64() as u128) << 64 | r.next_u64() as u128),
            boundary_u64(r) as u16,
            0,
            0,
        )),
        Ty::RangeInclusiveI8 => vis.visit(&(boundary_i64(r) as i8..=boundary_i64(r) as i8)),
        Ty::Phantom => vis.visit(&std::marker::PhantomData::<u64>),
        Ty::Slice => {
            let v: Vec<u16> = (0..n.min(2000)).map(|_| boundary_u64(r) as u16).collect();
            vis.visit(&v.as_slice())
        }
        // payloads that START with bytes a transport might be tempted to interpret: tag 55799 ("self-described CBOR",
        // d9 d9 f7) and tag 24 (embedded CBOR); to the framing layer they are opaque bytes like any others
        Ty::SelfDesc => vis.visit(&Tagged::<55799, String>::from(gen_string(r, n))),
        Ty::Embedded => {
            let mut inner = Vec::new();
            let _ = minicbor::encode(gen_string(r, n), &mut inner);
            vis.visit(&Tagged::<24, ByteVec>::from(ByteVec::from(inner)))
        }
        // a value whose Encode impl writes nothing at all (zero-length encoding)
        Ty::Empty => vis.visit(&EncOps(Vec::new())),
        Ty::Nothing => vis.visit(&Nothing),
        Ty::CborSeq => vis.visit(&CborSeq((0..n.min(200)).map(|_| boundary_u64(r)).collect())),
        Ty::FailAfter => vis.visit(&FailEncode { partial: n.min(40) }),
        Ty::Nested => vis.visit(&Nested(gen_string(r, n))),
        Ty::Annotated => vis.visit(&Annotated(boundary_u64(r) as u32, gen_string(r, n))),
        Ty::Ticket => {
            // bases right below a head-width boundary, so that "the next number" is one byte longer
            let base = *r.pick(&[23u64, 23, 255, 65_535, 0xffff_ffff, 5]) + if n % 4 == 3 { 1 } else { 0 };
            vis.visit(&Ticket { base, taken: std::cell::Cell::new(0), pad: if n >= 8 { n } else { 0 } })
        }
    }
}

/// A token sequence encoded through `Encoder::tokens`-equivalent calls.
#[derive(Debug)]
pub struct TokenSeq(pub Vec<Token<'static>>);

impl<C> Encode<C> for TokenSeq {
    fn encode<W: Write>(&self, e: &mut Encoder<W>, _: &mut C) -> Result<(), encode::Error<W::Error>> {
        e.tokens(self.0.iter())
    }
}

// ---------------------------------------------------------------------------------------
// decode families for the framed-I/O properties

pub trait Family: 'static {
    type Of<'a>: Decode<'a, ()> + Debug;
    const TY: Ty;
}

macro_rules! family {
    ($name:ident, $ty:ident, $of:ty) => {
        pub struct $name;
        impl Family for $name {
            type Of<'a> = $of;
            const TY: Ty = Ty::$ty;
        }
    };
}

family!(FU64, U64, u64);
family!(FStr, Str, &'a str);
family!(FString, String, String);
family!(FBytes, Bytes, ByteVec);
family!(FByteSlice, ByteSliceRef, &'a ByteSlice);
family!(FTuple3, Tuple3, (u32, &'a str, bool));
family!(FBorrowed, Borrowed, Borrowed<'a>);
family!(FTree, Tree, Tree);
family!(FVecU32, VecU32, Vec<u32>);
family!(FOptStr, OptStr, Option<&'a str>);
family!(FMapRec, MapRec, MapRec);
family!(FGappy, Gappy, Gappy);
family!(FShape, Shape, Shape);
family!(FUnit, Unit, ());
family!(FSelfDesc, SelfDesc, Tagged<55799, &'a str>);
family!(FNothing, Nothing, Nothing);
family!(FCborSeq, CborSeq, CborSeq);
family!(FEmbedded, Embedded, Tagged<24, &'a ByteSlice>);

/// Types that have a decode family; the I/O workloads draw from these.
pub const IO_TYS: &[Ty] = &[
    Ty::U64, Ty::Str, Ty::String, Ty::Bytes, Ty::ByteSliceRef, Ty::Tuple3, Ty::Borrowed, Ty::Tree, Ty::VecU32, Ty::OptStr,
    Ty::MapRec, Ty::Gappy, Ty::Shape, Ty::Unit, Ty::SelfDesc, Ty::Embedded, Ty::Nothing, Ty::CborSeq,
];

pub trait FamVisitor {
    type Out;
    fn visit<F: Family>(self) -> Self::Out;
}

pub fn with_family<V: FamVisitor>(ty: Ty, vis: V) -> V::Out {
    match ty {
        Ty::U64 => vis.visit::<FU64>(),
        Ty::Str => vis.visit::<FStr>(),
        Ty::String => vis.visit::<FString>(),
        Ty::Bytes => vis.visit::<FBytes>(),
        Ty::ByteSliceRef => vis.visit::<FByteSlice>(),
        Ty::Tuple3 => vis.visit::<FTuple3>(),
        Ty::Borrowed => vis.visit::<FBorrowed>(),
        Ty::Tree => vis.visit::<FTree>(),
        Ty::VecU32 => vis.visit::<FVecU32>(),
        Ty::OptStr => vis.visit::<FOptStr>(),
        Ty::MapRec => vis.visit::<FMapRec>(),
        Ty::Gappy => vis.visit::<FGappy>(),
        Ty::Shape => vis.visit::<FShape>(),
        Ty::Unit => vis.visit::<FUnit>(),
        Ty::SelfDesc => vis.visit::<FSelfDesc>(),
        Ty::Nothing => vis.visit::<FNothing>(),
        Ty::CborSeq => vis.visit::<FCborSeq>(),
        Ty::Embedded => vis.visit::<FEmbedded>(),
        other => panic!("harness: type {} has no decode family", other.name()),
    }
}

/// `E(v)`: the unbounded reference encoding, `None` if the encoder itself refuses the value.
pub fn reference_encoding(spec: &ValSpec) -> Option<Vec<u8>> {
    struct V;
    impl EncVisitor for V {
        type Out = Option<Vec<u8>>;
        fn visit<T: Encode<()> + Debug>(self, v: &T) -> Self::Out {
            // a plain Vec sink through a fresh Encoder: deliberately NOT `minicbor::to_vec`, whose extra machinery (if a tree
            // gives it any) is the business of C13's own to_vec clause and must not colour every other reference
            let mut out = Vec::new();
            minicbor::encode(v, &mut out).ok().map(|_| out)
        }
    }
    with_value(spec, V)
}

/// `minicbor::to_vec` of the value (the convenience entry point itself).
pub fn to_vec_of(spec: &ValSpec) -> Option<Vec<u8>> {
    struct V;
    impl EncVisitor for V {
        type Out = Option<Vec<u8>>;
        fn visit<T: Encode<()> + Debug>(self, v: &T) -> Self::Out {
            minicbor::to_vec(v).ok()
        }
    }
    with_value(spec, V)
}

/// Fingerprint of a decoded value: its `Debug` rendering (floats/NaN render stably).
pub fn fingerprint<T: Debug>(v: &T) -> String {
    // long renderings are folded into (head, length, hash) so that a 16 MiB frame does not cost a 60 MiB string
    struct Fold {
        head: String,
        len: usize,
        h: u64,
    }
    impl std::fmt::Write for Fold {
        fn write_str(&mut self, s: &str) -> std::fmt::Result {
            if self.head.len() < 256 {
                self.head.push_str(s);
            }
            self.len += s.len();
            for b in s.bytes() {
                self.h = (self.h ^ b as u64).wrapping_mul(0x100_0000_01b3);
            }
            Ok(())
        }
    }
    let mut f = Fold { head: String::new(), len: 0, h: 0xcbf2_9ce4_8422_2325 };
    let _ = std::fmt::write(&mut f, format_args!("{:?}", v));
    if f.len <= 256 {
        f.head
    } else {
        let mut cut = 200;
        while !f.head.is_char_boundary(cut) {
            cut -= 1;
        }
        format!("{}...[{} chars, fnv {:016x}]", &f.head[..cut], f.len, f.h)
    }
}

/// What decoding `payload` as family `F` directly (no I/O) yields.
pub fn direct_decode<F: Family>(payload: &[u8]) -> Result<String, String> {
    match minicbor::decode::<F::Of<'_>>(payload) {
        Ok(v) => Ok(fingerprint(&v)),
        Err(e) => Err(format!("{}", e)),
    }
}
