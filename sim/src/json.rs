//! Minimal JSON value, writer and parser (replay files, evidence).  Hand-written so that the
//! simulator depends on nothing but the crates under test and `futures-io`.

use std::fmt::Write as _;

#[derive(Clone, Debug, PartialEq)]
pub enum Json {
    Null,
    Bool(bool),
    Int(i64),
    Float(f64),
    Str(String),
    Arr(Vec<Json>),
    Obj(Vec<(String, Json)>),
}

impl Json {
    pub fn obj() -> Json {
        Json::Obj(Vec::new())
    }
    pub fn set(mut self, k: &str, v: impl Into<Json>) -> Json {
        if let Json::Obj(ref mut o) = self {
            o.push((k.to_string(), v.into()));
        }
        self
    }
    pub fn put(&mut self, k: &str, v: impl Into<Json>) {
        if let Json::Obj(ref mut o) = self {
            o.push((k.to_string(), v.into()));
        }
    }
    pub fn get(&self, k: &str) -> Option<&Json> {
        match self {
            Json::Obj(o) => o.iter().find(|(n, _)| n == k).map(|(_, v)| v),
            _ => None,
        }
    }
    pub fn as_i64(&self) -> Option<i64> {
        match self {
            Json::Int(i) => Some(*i),
            _ => None,
        }
    }
    pub fn as_u64(&self) -> Option<u64> {
        match self {
            Json::Int(i) if *i >= 0 => Some(*i as u64),
            // u64 values above i64::MAX are stored as strings
            Json::Str(s) => s.parse().ok(),
            _ => None,
        }
    }
    pub fn as_str(&self) -> Option<&str> {
        match self {
            Json::Str(s) => Some(s),
            _ => None,
        }
    }
    pub fn as_bool(&self) -> Option<bool> {
        match self {
            Json::Bool(b) => Some(*b),
            _ => None,
        }
    }
    pub fn as_arr(&self) -> Option<&[Json]> {
        match self {
            Json::Arr(a) => Some(a),
            _ => None,
        }
    }

    pub fn u64(x: u64) -> Json {
        if x <= i64::MAX as u64 {
            Json::Int(x as i64)
        } else {
            Json::Str(x.to_string())
        }
    }

    pub fn to_string_pretty(&self) -> String {
        let mut s = String::new();
        self.write(&mut s, Some(0));
        s.push('\n');
        s
    }

    pub fn to_string_compact(&self) -> String {
        let mut s = String::new();
        self.write(&mut s, None);
        s
    }

    fn write(&self, out: &mut String, indent: Option<usize>) {
        match self {
            Json::Null => out.push_str("null"),
            Json::Bool(b) => out.push_str(if *b { "true" } else { "false" }),
            Json::Int(i) => {
                let _ = write!(out, "{}", i);
            }
            Json::Float(f) => {
                if f.is_finite() {
                    let _ = write!(out, "{:.3}", f);
                } else {
                    out.push_str("null")
                }
            }
            Json::Str(s) => write_str(out, s),
            Json::Arr(a) => {
                // arrays of scalars stay on one line
                let scalar = a.iter().all(|x| !matches!(x, Json::Arr(_) | Json::Obj(_)));
                let ind = if scalar { None } else { indent };
                out.push('[');
                for (i, x) in a.iter().enumerate() {
                    if i > 0 {
                        out.push(',');
                        if ind.is_none() && indent.is_some() {
                            out.push(' ')
                        }
                    }
                    if let Some(n) = ind {
                        out.push('\n');
                        pad(out, n + 1);
                    }
                    x.write(out, ind.map(|n| n + 1));
                }
                if let Some(n) = ind {
                    if !a.is_empty() {
                        out.push('\n');
                        pad(out, n);
                    }
                }
                out.push(']');
            }
            Json::Obj(o) => {
                out.push('{');
                for (i, (k, v)) in o.iter().enumerate() {
                    if i > 0 {
                        out.push(',');
                    }
                    if let Some(n) = indent {
                        out.push('\n');
                        pad(out, n + 1);
                    }
                    write_str(out, k);
                    out.push(':');
                    if indent.is_some() {
                        out.push(' ')
                    }
                    v.write(out, indent.map(|n| n + 1));
                }
                if let Some(n) = indent {
                    if !o.is_empty() {
                        out.push('\n');
                        pad(out, n);
                    }
                }
                out.push('}');
            }
        }
    }

    pub fn parse(s: &str) -> Result<Json, String> {
        let mut p = Parser { b: s.as_bytes(), i: 0 };
        p.ws();
        let v = p.value()?;
        p.ws();
        if p.i != p.b.len() {
            return Err(format!("trailing data at {}", p.i));
        }
        Ok(v)
    }
}

fn pad(out: &mut String, n: usize) {
    for _ in 0..n {
        out.push(' ');
    }
}

fn write_str(out: &mut String, s: &str) {
    out.push('"');
    for c in s.chars() {
        match c {
            '"' => out.push_str("\\\""),
            '\\' => out.push_str("\\\\"),
            '\n' => out.push_str("\\n"),
            '\r' => out.push_str("\\r"),
            '\t' => out.push_str("\\t"),
            c if (c as u32) < 0x20 => {
                let _ = write!(out, "\\u{:04x}", c as u32);
            }
            c => out.push(c),
        }
    }
    out.push('"');
}

struct Parser<'a> {
    b: &'a [u8],
    i: usize,
}

impl<'a> Parser<'a> {
    fn ws(&mut self) {
        while self.i < self.b.len() && matches!(self.b[self.i], b' ' | b'\n' | b'\r' | b'\t') {
            self.i += 1
        }
    }
    fn peek(&self) -> Option<u8> {
        self.b.get(self.i).copied()
    }
    fn expect(&mut self, c: u8) -> Result<(), String> {
        if self.peek() == Some(c) {
            self.i += 1;
            Ok(())
        } else {
            Err(format!("expected '{}' at {}", c as char, self.i))
        }
    }
    fn lit(&mut self, s: &str, v: Json) -> Result<Json, String> {
        if self.b[self.i..].starts_with(s.as_bytes()) {
            self.i += s.len();
            Ok(v)
        } else {
            Err(format!("bad literal at {}", self.i))
        }
    }
    fn value(&mut self) -> Result<Json, String> {
        match self.peek() {
            None => Err("unexpected end".into()),
            Some(b'n') => self.lit("null", Json::Null),
            Some(b't') => self.lit("true", Json::Bool(true)),
            Some(b'f') => self.lit("false", Json::Bool(false)),
            Some(b'"') => Ok(Json::Str(self.string()?)),
            Some(b'[') => {
                self.i += 1;
                let mut a = Vec::new();
                self.ws();
                if self.peek() == Some(b']') {
                    self.i += 1;
                    return Ok(Json::Arr(a));
                }
                loop {
                    self.ws();
                    a.push(self.value()?);
                    self.ws();
                    match self.peek() {
                        Some(b',') => self.i += 1,
                        Some(b']') => {
                            self.i += 1;
                            return Ok(Json::Arr(a));
                        }
                        _ => return Err(format!("expected , or ] at {}", self.i)),
                    }
                }
            }
            Some(b'{') => {
                self.i += 1;
                let mut o = Vec::new();
                self.ws();
                if self.peek() == Some(b'}') {
                    self.i += 1;
                    return Ok(Json::Obj(o));
                }
                loop {
                    self.ws();
                    let k = self.string()?;
                    self.ws();
                    self.expect(b':')?;
                    self.ws();
                    let v = self.value()?;
                    o.push((k, v));
                    self.ws();
                    match self.peek() {
                        Some(b',') => self.i += 1,
                        Some(b'}') => {
                            self.i += 1;
                            return Ok(Json::Obj(o));
                        }
                        _ => return Err(format!("expected , or }} at {}", self.i)),
                    }
                }
            }
            Some(_) => self.number(),
        }
    }
    fn number(&mut self) -> Result<Json, String> {
        let start = self.i;
        let mut float = false;
        while let Some(c) = self.peek() {
            match c {
                b'0'..=b'9' | b'-' | b'+' => self.i += 1,
                b'.' | b'e' | b'E' => {
                    float = true;
                    self.i += 1
                }
                _ => break,
            }
        }
        let t = std::str::from_utf8(&self.b[start..self.i]).map_err(|e| e.to_string())?;
        if float {
            t.parse::<f64>().map(Json::Float).map_err(|e| format!("{e} at {start}"))
        } else {
            t.parse::<i64>().map(Json::Int).map_err(|e| format!("{e} at {start}"))
        }
    }
    fn string(&mut self) -> Result<String, String> {
        self.expect(b'"')?;
        let mut out = Vec::new();
        loop {
            let c = self.peek().ok_or("unterminated string")?;
            self.i += 1;
            match c {
                b'"' => break,
                b'\\' => {
                    let e = self.peek().ok_or("unterminated escape")?;
                    self.i += 1;
                    match e {
                        b'n' => out.push(b'\n'),
                        b'r' => out.push(b'\r'),
                        b't' => out.push(b'\t'),
                        b'b' => out.push(8),
                        b'f' => out.push(12),
                        b'u' => {
                            let h = std::str::from_utf8(&self.b[self.i..self.i + 4]).map_err(|e| e.to_string())?;
                            let cp = u32::from_str_radix(h, 16).map_err(|e| e.to_string())?;
                            self.i += 4;
                            let ch = char::from_u32(cp).unwrap_or('\u{fffd}');
                            let mut tmp = [0u8; 4];
                            out.extend_from_slice(ch.encode_utf8(&mut tmp).as_bytes());
                        }
                        other => out.push(other),
                    }
                }
                other => out.push(other),
            }
        }
        String::from_utf8(out).map_err(|e| e.to_string())
    }
}

impl From<bool> for Json {
    fn from(b: bool) -> Json {
        Json::Bool(b)
    }
}
impl From<i64> for Json {
    fn from(i: i64) -> Json {
        Json::Int(i)
    }
}
impl From<u64> for Json {
    fn from(i: u64) -> Json {
        Json::u64(i)
    }
}
impl From<u32> for Json {
    fn from(i: u32) -> Json {
        Json::Int(i as i64)
    }
}
impl From<usize> for Json {
    fn from(i: usize) -> Json {
        Json::u64(i as u64)
    }
}
impl From<f64> for Json {
    fn from(f: f64) -> Json {
        Json::Float(f)
    }
}
impl From<&str> for Json {
    fn from(s: &str) -> Json {
        Json::Str(s.to_string())
    }
}
impl From<String> for Json {
    fn from(s: String) -> Json {
        Json::Str(s)
    }
}
impl From<Vec<Json>> for Json {
    fn from(a: Vec<Json>) -> Json {
        Json::Arr(a)
    }
}
impl<T: Into<Json>> From<Option<T>> for Json {
    fn from(o: Option<T>) -> Json {
        match o {
            Some(x) => x.into(),
            None => Json::Null,
        }
    }
}

pub fn hex(bytes: &[u8]) -> String {
    let mut s = String::with_capacity(bytes.len() * 2);
    for b in bytes {
        let _ = write!(s, "{:02x}", b);
    }
    s
}

pub fn unhex(s: &str) -> Option<Vec<u8>> {
    if s.len() % 2 != 0 {
        return None;
    }
    (0..s.len() / 2).map(|i| u8::from_str_radix(&s[2 * i..2 * i + 2], 16).ok()).collect()
}
