//! The simulated environment: byte sources and sinks (blocking and async) whose every
//! outcome is taken from a scripted lane, plus the single-task executor pieces.
//!
//! When a lane runs out the stub continues with the benign default (deliver / accept all
//! that is offered, never `Pending`, never an error).

use crate::engine::{fk, pb, Obs};
use crate::json::Json;
use futures_io::{AsyncRead, AsyncWrite};
use std::cell::RefCell;
use std::io;
use std::pin::Pin;
use std::rc::Rc;
use std::sync::atomic::{AtomicUsize, Ordering};
use std::sync::Arc;
use std::task::{Context, Poll, Wake, Waker};

#[derive(Clone, Copy, Debug, PartialEq, Eq)]
pub enum ErrKind {
    Interrupted,
    WouldBlock,
    TimedOut,
    Other,
    ConnectionReset,
    ConnectionAborted,
    BrokenPipe,
    NotConnected,
    InvalidData,
    PermissionDenied,
    /// never injected as an error: the marker for "the blocking sink accepted 0 bytes", which `write_all` must turn into
    /// `ErrorKind::WriteZero`
    WriteZero,
}

/// number of error kinds (size of the per-kind counters)
pub const NK: usize = 11;

/// Every kind a source / sink may fail with.  `UnexpectedEof` and `WriteZero` are deliberately absent: the library
/// produces those itself, and an environment that returned them as transient errors would make the truncation /
/// write-zero clauses ambiguous.
pub const ERR_KINDS: [ErrKind; 10] = [
    ErrKind::Interrupted,
    ErrKind::WouldBlock,
    ErrKind::TimedOut,
    ErrKind::Other,
    ErrKind::ConnectionReset,
    ErrKind::ConnectionAborted,
    ErrKind::BrokenPipe,
    ErrKind::NotConnected,
    ErrKind::InvalidData,
    ErrKind::PermissionDenied,
];

impl ErrKind {
    pub fn io(self) -> io::ErrorKind {
        match self {
            ErrKind::Interrupted => io::ErrorKind::Interrupted,
            ErrKind::WouldBlock => io::ErrorKind::WouldBlock,
            ErrKind::TimedOut => io::ErrorKind::TimedOut,
            ErrKind::Other => io::ErrorKind::Other,
            ErrKind::ConnectionReset => io::ErrorKind::ConnectionReset,
            ErrKind::ConnectionAborted => io::ErrorKind::ConnectionAborted,
            ErrKind::BrokenPipe => io::ErrorKind::BrokenPipe,
            ErrKind::NotConnected => io::ErrorKind::NotConnected,
            ErrKind::InvalidData => io::ErrorKind::InvalidData,
            ErrKind::PermissionDenied => io::ErrorKind::PermissionDenied,
            ErrKind::WriteZero => io::ErrorKind::WriteZero,
        }
    }
    pub fn from_io(k: io::ErrorKind) -> Option<ErrKind> {
        ERR_KINDS.iter().copied().find(|e| e.io() == k)
    }
    pub fn idx(self) -> usize {
        self as usize
    }
    pub fn name(self) -> &'static str {
        match self {
            ErrKind::Interrupted => "interrupted",
            ErrKind::WouldBlock => "wouldblock",
            ErrKind::TimedOut => "timedout",
            ErrKind::Other => "other",
            ErrKind::ConnectionReset => "connreset",
            ErrKind::ConnectionAborted => "connaborted",
            ErrKind::BrokenPipe => "brokenpipe",
            ErrKind::NotConnected => "notconnected",
            ErrKind::InvalidData => "invaliddata",
            ErrKind::PermissionDenied => "permissiondenied",
            ErrKind::WriteZero => "writezero",
        }
    }
    pub fn parse(s: &str) -> Option<ErrKind> {
        ERR_KINDS.iter().copied().find(|k| k.name() == s)
    }
}

/// One scripted outcome of the environment's next call.
#[derive(Clone, Copy, Debug, PartialEq, Eq)]
pub enum Step {
    /// deliver / accept up to k bytes (k >= 1; clamped to what is offered / available)
    Xfer(u32),
    Pending,
    Err(ErrKind),
    /// sink only: accept zero bytes (`Ok(0)`)
    Zero,
}

impl Step {
    pub fn to_json(&self) -> Json {
        match self {
            Step::Xfer(k) => Json::Int(*k as i64),
            Step::Pending => Json::Str("pending".into()),
            Step::Err(k) => Json::Str(format!("err:{}", k.name())),
            Step::Zero => Json::Str("zero".into()),
        }
    }
    pub fn from_json(j: &Json) -> Result<Step, String> {
        match j {
            Json::Int(k) if *k >= 1 => Ok(Step::Xfer(*k as u32)),
            Json::Str(s) if s == "pending" => Ok(Step::Pending),
            Json::Str(s) if s == "zero" => Ok(Step::Zero),
            Json::Str(s) if s.starts_with("err:") => ErrKind::parse(&s[4..]).map(Step::Err).ok_or_else(|| format!("bad err kind {s}")),
            other => Err(format!("bad step {:?}", other)),
        }
    }
}

pub fn lane_to_json(l: &[Step]) -> Json {
    Json::Arr(l.iter().map(|s| s.to_json()).collect())
}

pub fn lane_from_json(j: Option<&Json>) -> Result<Vec<Step>, String> {
    j.and_then(|a| a.as_arr()).ok_or("lane missing")?.iter().map(Step::from_json).collect()
}

/// Caller decision each time a future returns `Pending`.
#[derive(Clone, Copy, Debug, PartialEq, Eq)]
pub enum Decide {
    Poll,
    Cancel,
}

pub fn decides_to_json(l: &[Decide]) -> Json {
    Json::Str(l.iter().map(|d| if *d == Decide::Poll { 'p' } else { 'C' }).collect())
}

pub fn decides_from_json(j: Option<&Json>) -> Result<Vec<Decide>, String> {
    j.and_then(|s| s.as_str())
        .ok_or("caller lane missing")?
        .chars()
        .map(|c| match c {
            'p' => Ok(Decide::Poll),
            'C' => Ok(Decide::Cancel),
            o => Err(format!("bad caller step {o}")),
        })
        .collect()
}

// ---------------------------------------------------------------------------------------
// event codes for traces and abstract edges

pub mod ev {
    pub const XFER_ALL: u8 = 1;
    pub const XFER_SHORT: u8 = 2;
    pub const PENDING: u8 = 3;
    pub const ERR: u8 = 32; // + kind index
    pub const EOF: u8 = 9;
    pub const ZERO: u8 = 10;
    pub const CANCEL: u8 = 11;
    pub const POLL: u8 = 12;
    pub const ISSUE: u8 = 13;
    pub const RESULT: u8 = 14;
    pub const FULL: u8 = 15;
    pub const FLUSH: u8 = 16;
    pub const SWITCH: u8 = 17;
}

/// Position of a byte offset relative to the frames of a stream (model side).
#[derive(Clone, Copy, Debug, PartialEq, Eq)]
pub enum Phase {
    Boundary,
    /// 1..=3 prefix bytes transferred
    Prefix(u8),
    /// all 4 prefix bytes, `done` payload bytes of `len` transferred (done < len)
    Payload { done: usize, len: usize },
    /// beyond the last known frame (spliced garbage / unknown)
    Unknown,
}

impl Phase {
    pub fn code(self) -> u32 {
        match self {
            Phase::Boundary => 0,
            Phase::Prefix(k) => k as u32,
            Phase::Payload { done: 0, .. } => 4,
            Phase::Payload { done, len } if done + 1 == len => 6,
            Phase::Payload { .. } => 5,
            Phase::Unknown => 7,
        }
    }
    pub fn inside(self) -> bool {
        !matches!(self, Phase::Boundary | Phase::Unknown)
    }
}

/// Share of a progress budget that scales with the number of bytes to move: generous enough for an implementation that
/// moves one byte per call on anything up to 1 MiB and at least 4 bytes per call on what lies beyond.  (Loops that resend
/// data are stopped much earlier by the sink's data cap.)
pub fn byte_budget(bytes: usize) -> u64 {
    let b = bytes as u64;
    2 * b.min(1 << 20) + b / 4
}

/// Frame layout of a stream: start offset and payload length of each frame.
#[derive(Clone, Debug, Default)]
pub struct Layout {
    pub frames: Vec<(usize, usize)>,
}

impl Layout {
    pub fn push(&mut self, start: usize, payload_len: usize) {
        self.frames.push((start, payload_len));
    }
    pub fn end(&self) -> usize {
        self.frames.last().map(|(s, l)| s + 4 + l).unwrap_or(0)
    }
    pub fn phase(&self, off: usize) -> Phase {
        // frames are pushed in increasing order of their start: find the last frame starting at or before `off`
        let idx = self.frames.partition_point(|&(s, _)| s <= off);
        if idx > 0 {
            let (s, l) = self.frames[idx - 1];
            if off == s {
                return Phase::Boundary;
            }
            if off < s + 4 {
                return Phase::Prefix((off - s) as u8);
            }
            if off < s.saturating_add(4).saturating_add(l) {
                return Phase::Payload { done: off - s - 4, len: l };
            }
        }
        if off == self.end() {
            Phase::Boundary
        } else {
            Phase::Unknown
        }
    }
}

// ---------------------------------------------------------------------------------------
// source

pub struct SrcCore {
    pub data: Vec<u8>,
    pub pos: usize,
    pub lane: Vec<Step>,
    pub lane_pos: usize,
    /// how many more times the lane is replayed from its start once it is exhausted (fault storms over long histories);
    /// only after the last replay does the benign default take over
    pub repeat_left: u32,
    pub layout: Layout,
    pub calls: u64,
    pub call_cap: u64,
    pub cap_hit: bool,
    pub served_err: [u64; NK],
    pub eof_served: u64,
    pub wakers_seen: u64,
    /// blocking class only: non-`Interrupted` errors in the lane are served as fatal errors
    pub allow_fatal: bool,
    pub fatal_served: Option<ErrKind>,
    /// overwrite the part of the caller's buffer that was NOT filled (its content is unspecified by the Read contract)
    pub scribble: bool,
    /// blocking class only: the source overrides `Read::read_exact` with an all-or-nothing version (like `io::Cursor`,
    /// `&[u8]` and `VecDeque<u8>` do): on a short stream it consumes what is left, copies NOTHING into the caller's
    /// buffer and fails with `UnexpectedEof` -- the `Read` contract leaves the buffer content unspecified in that case
    pub exact_override: bool,
    pub obs: Rc<RefCell<Obs>>,
}

impl SrcCore {
    pub fn new(data: Vec<u8>, lane: Vec<Step>, layout: Layout, call_cap: u64, obs: Rc<RefCell<Obs>>) -> Rc<RefCell<SrcCore>> {
        Rc::new(RefCell::new(SrcCore {
            data,
            pos: 0,
            lane,
            lane_pos: 0,
            repeat_left: 0,
            layout,
            calls: 0,
            call_cap,
            cap_hit: false,
            served_err: [0; NK],
            eof_served: 0,
            wakers_seen: 0,
            allow_fatal: false,
            fatal_served: None,
            scribble: false,
            exact_override: false,
            obs,
        }))
    }
    pub fn lane_done(&self) -> bool {
        self.lane_pos >= self.lane.len() && self.repeat_left == 0
    }
    pub fn phase(&self) -> Phase {
        self.layout.phase(self.pos)
    }

    /// Serve one read call.  `None` = Pending.
    fn serve(&mut self, buf: &mut [u8], is_async: bool) -> Option<io::Result<usize>> {
        self.calls += 1;
        if self.calls > self.call_cap {
            self.cap_hit = true;
            return Some(Err(io::Error::new(io::ErrorKind::Other, "minisim: call cap exceeded")));
        }
        if self.lane_pos >= self.lane.len() && self.repeat_left > 0 && !self.lane.is_empty() {
            self.repeat_left -= 1;
            self.lane_pos = 0;
        }
        let step = if self.lane_pos < self.lane.len() {
            let s = self.lane[self.lane_pos];
            self.lane_pos += 1;
            s
        } else {
            Step::Xfer(u32::MAX)
        };
        let phase = self.phase();
        let mut obs = self.obs.borrow_mut();
        match step {
            Step::Pending if is_async => {
                obs.event(ev::PENDING, self.pos as u64);
                obs.fault(fk::pending_read);
                obs.edge(phase.code(), ev::PENDING as u32);
                if phase.inside() {
                    obs.nontrivial = true
                }
                None
            }
            Step::Err(k) if is_async || k == ErrKind::Interrupted || self.allow_fatal => {
                obs.event(ev::ERR + k.idx() as u8, self.pos as u64);
                self.served_err[k.idx()] += 1;
                if !is_async && k != ErrKind::Interrupted {
                    self.fatal_served = Some(k);
                    obs.fault(fk::fatal_err_read);
                }
                if k == ErrKind::Interrupted {
                    obs.fault(fk::eintr_read);
                    match phase {
                        Phase::Prefix(_) => obs.probe(pb::eintr_mid_prefix),
                        Phase::Payload { .. } => obs.probe(pb::eintr_mid_payload),
                        Phase::Boundary => obs.probe(pb::eintr_before_first_byte),
                        _ => {}
                    }
                }
                if is_async {
                    obs.fault(fk::transient_err_read);
                    match phase {
                        Phase::Prefix(_) => obs.probe(pb::transient_err_mid_prefix),
                        Phase::Payload { .. } => obs.probe(pb::transient_err_mid_payload),
                        _ => {}
                    }
                }
                obs.edge(phase.code(), ev::ERR as u32 + k.idx() as u32);
                if phase.inside() {
                    obs.nontrivial = true
                }
                Some(Err(io::Error::new(k.io(), "minisim: injected")))
            }
            // steps that do not apply to this stub kind degrade to the benign default
            other => {
                let k = match other {
                    Step::Xfer(k) => k.max(1) as usize,
                    _ => usize::MAX,
                };
                let avail = self.data.len() - self.pos;
                if avail == 0 || buf.is_empty() {
                    obs.event(ev::EOF, self.pos as u64);
                    self.eof_served += 1;
                    obs.edge(phase.code(), ev::EOF as u32);
                    match phase {
                        Phase::Prefix(_) => {
                            obs.probe(pb::eof_inside_prefix);
                            obs.fault(fk::stream_cut_in_frame);
                            obs.nontrivial = true
                        }
                        Phase::Payload { .. } => {
                            obs.probe(pb::eof_inside_payload);
                            obs.fault(fk::stream_cut_in_frame);
                            obs.nontrivial = true
                        }
                        _ => {}
                    }
                    return Some(Ok(0));
                }
                let n = k.min(avail).min(buf.len());
                buf[..n].copy_from_slice(&self.data[self.pos..self.pos + n]);
                if self.scribble {
                    // the start of the unfilled part is where a reader would look first; scribbling megabytes on every
                    // call would only burn time
                    let end = buf.len().min(n + 4096);
                    for b in buf[n..end].iter_mut() {
                        *b = 0xDD;
                    }
                    obs.fault(fk::scribble_unfilled);
                }
                self.pos += n;
                let short = n < buf.len();
                let after = self.layout.phase(self.pos);
                obs.event(if short { ev::XFER_SHORT } else { ev::XFER_ALL }, n as u64);
                obs.edge(phase.code(), if short { ev::XFER_SHORT } else { ev::XFER_ALL } as u32);
                if short {
                    obs.fault(fk::short_read);
                    match after {
                        Phase::Prefix(_) => {
                            obs.probe(pb::prefix_split_across_reads);
                            obs.nontrivial = true
                        }
                        Phase::Payload { done, .. } if done > 0 => {
                            obs.probe(pb::payload_split_across_reads);
                            obs.nontrivial = true
                        }
                        _ => {}
                    }
                }
                Some(Ok(n))
            }
        }
    }
}

pub struct SimSource(pub Rc<RefCell<SrcCore>>);

impl io::Read for SimSource {
    fn read(&mut self, buf: &mut [u8]) -> io::Result<usize> {
        // whatever the stub allocates (error values, logs) is the simulator's, not the reader's
        let _quiet = crate::alloc::pause();
        match self.0.borrow_mut().serve(buf, false) {
            Some(r) => r,
            None => unreachable!("blocking source never returns Pending"),
        }
    }
    /// Either the standard library's default algorithm (spelled out, because an override cannot call the default), or --
    /// with `exact_override` -- an all-or-nothing version that gathers into a scratch buffer through the same lane
    /// (short reads, EINTR retried) and touches the caller's buffer only on success.
    fn read_exact(&mut self, buf: &mut [u8]) -> io::Result<()> {
        let _quiet = crate::alloc::pause();
        let all_or_nothing = self.0.borrow().exact_override;
        if !all_or_nothing {
            let mut rest: &mut [u8] = buf;
            while !rest.is_empty() {
                match self.read(rest) {
                    Ok(0) => break,
                    Ok(n) => rest = &mut rest[n..],
                    Err(e) if e.kind() == io::ErrorKind::Interrupted => {}
                    Err(e) => return Err(e),
                }
            }
            return if rest.is_empty() { Ok(()) } else { Err(io::Error::new(io::ErrorKind::UnexpectedEof, "failed to fill whole buffer")) };
        }
        self.0.borrow().obs.borrow_mut().fault(fk::read_exact_override);
        let mut tmp = vec![0u8; buf.len()];
        let mut got = 0;
        while got < tmp.len() {
            match self.read(&mut tmp[got..]) {
                Ok(0) => {
                    if self.0.borrow().scribble {
                        for b in buf.iter_mut() {
                            *b = 0xDD;
                        }
                    }
                    return Err(io::Error::new(io::ErrorKind::UnexpectedEof, "failed to fill whole buffer"));
                }
                Ok(n) => got += n,
                Err(e) if e.kind() == io::ErrorKind::Interrupted => {}
                Err(e) => return Err(e),
            }
        }
        buf.copy_from_slice(&tmp);
        Ok(())
    }
    /// A device with a native scatter read.
    fn read_vectored(&mut self, bufs: &mut [io::IoSliceMut<'_>]) -> io::Result<usize> {
        let _quiet = crate::alloc::pause();
        let total: usize = bufs.iter().map(|b| b.len()).sum();
        let mut tmp = vec![0u8; total];
        let mut core = self.0.borrow_mut();
        core.obs.borrow_mut().fault(fk::vectored_io);
        match core.serve(&mut tmp, false) {
            Some(Ok(n)) => {
                let mut off = 0;
                for b in bufs.iter_mut() {
                    if off >= n {
                        break;
                    }
                    let k = b.len().min(n - off);
                    b[..k].copy_from_slice(&tmp[off..off + k]);
                    off += k;
                }
                Ok(n)
            }
            Some(Err(e)) => Err(e),
            None => unreachable!("blocking source never returns Pending"),
        }
    }
}

pub struct SimAsyncSource(pub Rc<RefCell<SrcCore>>);

impl AsyncRead for SimAsyncSource {
    fn poll_read(self: Pin<&mut Self>, cx: &mut Context<'_>, buf: &mut [u8]) -> Poll<io::Result<usize>> {
        let mut core = self.0.borrow_mut();
        match core.serve(buf, true) {
            Some(r) => Poll::Ready(r),
            None => {
                core.wakers_seen += 1;
                cx.waker().wake_by_ref();
                Poll::Pending
            }
        }
    }

    /// A real scatter read: one scripted outcome is spread over all the buffers offered (the default
    /// implementation would only ever fill the first one).
    fn poll_read_vectored(self: Pin<&mut Self>, cx: &mut Context<'_>, bufs: &mut [io::IoSliceMut<'_>]) -> Poll<io::Result<usize>> {
        let total: usize = bufs.iter().map(|b| b.len()).sum();
        let mut tmp = vec![0u8; total];
        let mut core = self.0.borrow_mut();
        core.obs.borrow_mut().fault(fk::vectored_io);
        match core.serve(&mut tmp, true) {
            Some(Ok(n)) => {
                let mut off = 0;
                for b in bufs.iter_mut() {
                    if off >= n {
                        break;
                    }
                    let k = b.len().min(n - off);
                    b[..k].copy_from_slice(&tmp[off..off + k]);
                    off += k;
                }
                Poll::Ready(Ok(n))
            }
            Some(Err(e)) => Poll::Ready(Err(e)),
            None => {
                core.wakers_seen += 1;
                cx.waker().wake_by_ref();
                Poll::Pending
            }
        }
    }
}

// ---------------------------------------------------------------------------------------
// sink

#[derive(Clone, Copy, Debug, PartialEq, Eq)]
pub enum FullMode {
    /// `write` fails with `StorageFull` once no room is left
    Error,
    /// `write` returns `Ok(0)` once no room is left
    Zero,
    /// a non-blocking device whose buffer is full: every further write fails with `WouldBlock`
    WouldBlock,
}

pub struct SinkCore {
    pub data: Vec<u8>,
    pub lane: Vec<Step>,
    pub lane_pos: usize,
    /// see `SrcCore::repeat_left`
    pub repeat_left: u32,
    /// remaining capacity (full-disk model); `None` = unbounded
    pub room: Option<usize>,
    /// safety net: a sink that has been handed far more bytes than the whole workload contains stops the run (`cap_hit`)
    /// instead of growing until the process is killed (a resend loop inside one poll never returns to the interpreter)
    pub data_cap: usize,
    pub full_mode: FullMode,
    pub calls: u64,
    pub write_calls: u64,
    pub flush_calls: u64,
    pub call_cap: u64,
    pub cap_hit: bool,
    pub served_err: [u64; NK],
    pub zero_served: u64,
    pub full_served: u64,
    pub empty_offers: u64,
    pub nonempty_offers: u64,
    pub allow_fatal: bool,
    pub fatal_served: Option<ErrKind>,
    /// async only: scripted outcomes of poll_flush (Pending / Err(kind) / anything else = Ok)
    pub flush_lane: Vec<Step>,
    pub flush_pos: usize,
    /// expected frame layout of what is being written (set by the interpreter for probes)
    pub layout: Layout,
    pub obs: Rc<RefCell<Obs>>,
}

impl SinkCore {
    pub fn new(lane: Vec<Step>, room: Option<usize>, call_cap: u64, obs: Rc<RefCell<Obs>>) -> Rc<RefCell<SinkCore>> {
        Rc::new(RefCell::new(SinkCore {
            data: Vec::new(),
            lane,
            lane_pos: 0,
            repeat_left: 0,
            room,
            data_cap: usize::MAX,
            full_mode: FullMode::Error,
            calls: 0,
            write_calls: 0,
            flush_calls: 0,
            call_cap,
            cap_hit: false,
            served_err: [0; NK],
            zero_served: 0,
            full_served: 0,
            empty_offers: 0,
            nonempty_offers: 0,
            allow_fatal: false,
            fatal_served: None,
            flush_lane: Vec::new(),
            flush_pos: 0,
            layout: Layout::default(),
            obs,
        }))
    }
    pub fn lane_done(&self) -> bool {
        self.lane_pos >= self.lane.len() && self.repeat_left == 0
    }
    pub fn phase(&self) -> Phase {
        self.layout.phase(self.data.len())
    }

    fn serve(&mut self, buf: &[u8], is_async: bool) -> Option<io::Result<usize>> {
        self.calls += 1;
        self.write_calls += 1;
        if self.calls > self.call_cap {
            self.cap_hit = true;
            return Some(Err(io::Error::new(io::ErrorKind::Other, "minisim: call cap exceeded")));
        }
        let phase = self.phase();
        let mut obs = self.obs.borrow_mut();
        if buf.is_empty() {
            // like a real sink: nothing offered, nothing taken; does not consume a lane step
            self.empty_offers += 1;
            obs.event(ev::ZERO, 0);
            return Some(Ok(0));
        }
        self.nonempty_offers += 1;
        if self.lane_pos >= self.lane.len() && self.repeat_left > 0 && !self.lane.is_empty() {
            self.repeat_left -= 1;
            self.lane_pos = 0;
        }
        let step = if self.lane_pos < self.lane.len() {
            let s = self.lane[self.lane_pos];
            self.lane_pos += 1;
            s
        } else {
            Step::Xfer(u32::MAX)
        };
        match step {
            Step::Pending if is_async => {
                obs.event(ev::PENDING, self.data.len() as u64);
                obs.fault(fk::pending_write);
                obs.edge(16 + phase.code(), ev::PENDING as u32);
                if phase.inside() {
                    obs.nontrivial = true
                }
                None
            }
            Step::Err(k) if is_async || k == ErrKind::Interrupted || self.allow_fatal => {
                obs.event(ev::ERR + k.idx() as u8, self.data.len() as u64);
                self.served_err[k.idx()] += 1;
                if !is_async && k != ErrKind::Interrupted {
                    self.fatal_served = Some(k);
                    obs.fault(fk::fatal_err_write);
                }
                if k == ErrKind::Interrupted {
                    obs.fault(fk::eintr_write)
                }
                if is_async {
                    obs.fault(fk::transient_err_write)
                }
                obs.edge(16 + phase.code(), ev::ERR as u32 + k.idx() as u32);
                if phase.inside() {
                    obs.nontrivial = true
                }
                Some(Err(io::Error::new(k.io(), "minisim: injected")))
            }
            Step::Zero if !is_async && self.allow_fatal => {
                // a blocking device that takes nothing although bytes were offered: `write_all` reports WriteZero
                obs.event(ev::ZERO, self.data.len() as u64);
                obs.fault(fk::write_zero);
                obs.fault(fk::fatal_err_write);
                self.zero_served += 1;
                self.fatal_served = Some(ErrKind::WriteZero);
                if phase.inside() {
                    obs.probe(pb::write_zero_mid_frame);
                    obs.nontrivial = true
                }
                Some(Ok(0))
            }
            Step::Zero if is_async => {
                obs.event(ev::ZERO, self.data.len() as u64);
                obs.fault(fk::write_zero);
                self.zero_served += 1;
                obs.edge(16 + phase.code(), ev::ZERO as u32);
                if phase.inside() {
                    obs.probe(pb::write_zero_mid_frame);
                    obs.nontrivial = true
                }
                Some(Ok(0))
            }
            other => {
                let k = match other {
                    Step::Xfer(k) => k.max(1) as usize,
                    _ => usize::MAX,
                };
                let mut n = k.min(buf.len());
                if let Some(room) = self.room {
                    if room == 0 {
                        self.full_served += 1;
                        obs.event(ev::FULL, self.data.len() as u64);
                        obs.fault(fk::sink_full);
                        obs.nontrivial = true;
                        return Some(match self.full_mode {
                            FullMode::Error => Err(io::Error::new(io::ErrorKind::StorageFull, "minisim: sink full")),
                            FullMode::Zero => Ok(0),
                            FullMode::WouldBlock => Err(io::Error::new(io::ErrorKind::WouldBlock, "minisim: sink full (would block)")),
                        });
                    }
                    n = n.min(room);
                    self.room = Some(room - n);
                }
                if self.data.len() + n > self.data_cap {
                    self.cap_hit = true;
                    return Some(Err(io::Error::new(io::ErrorKind::Other, "minisim: data cap exceeded")));
                }
                self.data.extend_from_slice(&buf[..n]);
                let short = n < buf.len();
                let after = self.layout.phase(self.data.len());
                obs.event(if short { ev::XFER_SHORT } else { ev::XFER_ALL }, n as u64);
                obs.edge(16 + phase.code(), if short { ev::XFER_SHORT } else { ev::XFER_ALL } as u32);
                if short {
                    obs.fault(fk::short_write);
                    match after {
                        Phase::Prefix(_) => {
                            obs.probe(pb::short_write_mid_prefix);
                            obs.nontrivial = true
                        }
                        Phase::Payload { done, .. } if done > 0 => {
                            obs.probe(pb::short_write_mid_payload);
                            obs.nontrivial = true
                        }
                        _ => {}
                    }
                }
                Some(Ok(n))
            }
        }
    }
}

pub struct SimSink(pub Rc<RefCell<SinkCore>>);

impl io::Write for SimSink {
    fn write(&mut self, buf: &[u8]) -> io::Result<usize> {
        match self.0.borrow_mut().serve(buf, false) {
            Some(r) => r,
            None => unreachable!("blocking sink never returns Pending"),
        }
    }
    /// A device with a native gather write: the concatenation of the buffers meets one scripted outcome.
    fn write_vectored(&mut self, bufs: &[io::IoSlice<'_>]) -> io::Result<usize> {
        let mut all = Vec::new();
        for b in bufs {
            all.extend_from_slice(b);
        }
        let mut core = self.0.borrow_mut();
        core.obs.borrow_mut().fault(fk::vectored_io);
        match core.serve(&all, false) {
            Some(r) => r,
            None => unreachable!("blocking sink never returns Pending"),
        }
    }
    fn flush(&mut self) -> io::Result<()> {
        let mut c = self.0.borrow_mut();
        c.flush_calls += 1;
        c.obs.borrow_mut().event(ev::FLUSH, 0);
        Ok(())
    }
}

pub struct SimAsyncSink(pub Rc<RefCell<SinkCore>>);

impl AsyncWrite for SimAsyncSink {
    fn poll_write(self: Pin<&mut Self>, cx: &mut Context<'_>, buf: &[u8]) -> Poll<io::Result<usize>> {
        let mut core = self.0.borrow_mut();
        match core.serve(buf, true) {
            Some(r) => Poll::Ready(r),
            None => {
                cx.waker().wake_by_ref();
                Poll::Pending
            }
        }
    }
    /// A real gather write: the concatenation of all buffers is what is offered to one scripted outcome.
    fn poll_write_vectored(self: Pin<&mut Self>, cx: &mut Context<'_>, bufs: &[io::IoSlice<'_>]) -> Poll<io::Result<usize>> {
        let mut all = Vec::new();
        for b in bufs {
            all.extend_from_slice(b);
        }
        let mut core = self.0.borrow_mut();
        core.obs.borrow_mut().fault(fk::vectored_io);
        match core.serve(&all, true) {
            Some(r) => Poll::Ready(r),
            None => {
                cx.waker().wake_by_ref();
                Poll::Pending
            }
        }
    }
    fn poll_flush(self: Pin<&mut Self>, cx: &mut Context<'_>) -> Poll<io::Result<()>> {
        let mut guard = self.0.borrow_mut();
        let c = &mut *guard;
        c.flush_calls += 1;
        c.calls += 1;
        if c.calls > c.call_cap {
            c.cap_hit = true;
            return Poll::Ready(Err(io::Error::new(io::ErrorKind::Other, "minisim: call cap exceeded")));
        }
        let step = if c.flush_pos < c.flush_lane.len() {
            c.flush_pos += 1;
            c.flush_lane[c.flush_pos - 1]
        } else {
            Step::Xfer(1)
        };
        let phase = c.layout.phase(c.data.len());
        let mut obs = c.obs.borrow_mut();
        match step {
            Step::Pending => {
                obs.event(ev::FLUSH, 1);
                obs.fault(fk::flush_pending);
                if phase.inside() {
                    obs.nontrivial = true
                }
                cx.waker().wake_by_ref();
                Poll::Pending
            }
            Step::Err(k) => {
                obs.event(ev::FLUSH, 2 + k.idx() as u64);
                obs.fault(fk::flush_err);
                c.served_err[k.idx()] += 1;
                Poll::Ready(Err(io::Error::new(k.io(), "minisim: injected (flush)")))
            }
            _ => {
                obs.event(ev::FLUSH, 0);
                Poll::Ready(Ok(()))
            }
        }
    }
    fn poll_close(self: Pin<&mut Self>, _: &mut Context<'_>) -> Poll<io::Result<()>> {
        Poll::Ready(Ok(()))
    }
}

// ---------------------------------------------------------------------------------------
// executor pieces

pub struct CountWaker {
    pub wakes: AtomicUsize,
}

impl Wake for CountWaker {
    fn wake(self: Arc<Self>) {
        self.wakes.fetch_add(1, Ordering::Relaxed);
    }
    fn wake_by_ref(self: &Arc<Self>) {
        self.wakes.fetch_add(1, Ordering::Relaxed);
    }
}

pub fn new_waker() -> (Arc<CountWaker>, Waker) {
    let cw = Arc::new(CountWaker { wakes: AtomicUsize::new(0) });
    let w = Waker::from(cw.clone());
    (cw, w)
}

/// Lane of caller decisions; `Poll` once exhausted.
pub struct Caller {
    pub lane: Vec<Decide>,
    pub pos: usize,
    /// decision once the lane is exhausted (the benign environment never returns Pending by itself, so
    /// `Cancel` here only ever meets a Pending that the code under test produced on its own)
    pub default: Decide,
}

impl Caller {
    pub fn new(lane: Vec<Decide>) -> Self {
        Caller { lane, pos: 0, default: Decide::Poll }
    }
    pub fn with_default(lane: Vec<Decide>, default: Decide) -> Self {
        Caller { lane, pos: 0, default }
    }
    pub fn next(&mut self) -> Decide {
        if self.pos < self.lane.len() {
            self.pos += 1;
            self.lane[self.pos - 1]
        } else {
            self.default
        }
    }
    pub fn done(&self) -> bool {
        self.pos >= self.lane.len()
    }
}

pub fn frame(payload: &[u8]) -> Vec<u8> {
    let mut f = Vec::with_capacity(payload.len() + 4);
    f.extend_from_slice(&(payload.len() as u32).to_be_bytes());
    f.extend_from_slice(payload);
    f
}

pub fn garbage(n: usize) -> Vec<u8> {
    // deterministic non-zero pattern; distinct from anything the workload encodes on purpose
    let mut v: Vec<u8> = (0..n).map(|i| 0xA5u8 ^ (i as u8).wrapping_mul(31)).collect();
    // every third length comes with spare capacity (a roomy recycled buffer: capacity != length)
    if n % 3 == 0 {
        v.reserve_exact(2 * n + 64);
    }
    v
}
