//! Property-independent machinery: observation record of a run, the worker pool that executes
//! scenarios by index, aggregation that does not depend on the number of workers, the
//! minimiser, replay files, evidence.

use crate::json::Json;
use crate::rng::{run_seed, Fnv, Rng};
use std::collections::BTreeSet;
use std::panic::{catch_unwind, AssertUnwindSafe};
use std::sync::atomic::{AtomicU64, Ordering};
use std::sync::{Arc, Mutex};

// ---------------------------------------------------------------------------------------
// fault kinds and probes (indices into fixed arrays so a run allocates nothing for them)

macro_rules! names {
    ($modname:ident, $count:ident, $names:ident; $($id:ident),* $(,)?) => {
        #[allow(non_camel_case_types, dead_code)]
        #[derive(Clone, Copy)]
        #[repr(usize)]
        enum $modname { $($id),*, __COUNT }
        pub const $count: usize = $modname::__COUNT as usize;
        pub const $names: [&str; $count] = [$(stringify!($id)),*];
        $(pub const $id: usize = $modname::$id as usize;)*
    };
}

#[allow(non_upper_case_globals)]
pub mod fk {
    names!(K, COUNT, NAMES;
        short_read, short_write, eintr_read, eintr_write, pending_read, pending_write,
        transient_err_read, transient_err_write, write_zero, stream_cut_in_frame, stream_cut_at_boundary,
        cancel_read, cancel_write, cancel_sync, sink_full, poison_frame, hostile_prefix,
        garbage_buffer, fatal_err_read, fatal_err_write, encode_fail, oversize_value, pipe_full, pipe_empty,
        peer_close, max_len_knob, task_switch, flush_err, flush_pending, scribble_unfilled, vectored_io, late_cancel, flush_between_cancel_and_sync, read_exact_override,
    );
}

#[allow(non_upper_case_globals)]
pub mod pb {
    names!(P, COUNT, NAMES;
        cancel_with_3_of_4_prefix_bytes, cancel_mid_prefix, cancel_mid_payload, cancel_at_payload_complete,
        eof_inside_prefix, eof_inside_payload, transient_err_mid_prefix, transient_err_mid_payload,
        cancel_of_sync, resume_with_offset_lt_4, resume_with_offset_ge_4, frame_len_eq_max_len,
        frame_len_eq_max_len_plus_1, zero_length_frame, exact_fit_sink, one_short_sink,
        internal_write_boundary_eq_capacity, eintr_mid_prefix, eintr_mid_payload, prefix_split_across_reads,
        payload_split_across_reads, decode_error_then_good_frame, write_zero_mid_frame, double_cancel_same_frame,
        idle_sync, reject_then_idle_sync, short_write_mid_prefix, short_write_mid_payload,
        clean_end_repeated, large_frame_ge_64k, empty_sink_cap0, failed_encode_partial_bytes,
        pipe_both_blocked_resolved, pipe_reader_cancel, pipe_writer_cancel, err_then_sync_resume,
        buffer_shrinks_between_frames, buffer_grows_between_frames, eintr_before_first_byte,
        two_faults_same_frame, rewrap_at_boundary, max_len_changed_mid_run, stream_beyond_4gib,
    );
}

/// What one simulated run did, as measured by the stubs and the interpreter.
/// Per-worker heartbeat: bumped on every simulator event, read by the watchdog.  A run counts as hung only when it produces
/// no event at all for the whole watchdog period -- a long but progressing run (a big frame in tiny pieces on a loaded
/// machine) is not a hang.
#[repr(align(64))]
struct Beat(AtomicU64);
static BEATS: [Beat; 64] = [const { Beat(AtomicU64::new(0)) }; 64];

thread_local! {
    static WORKER: std::cell::Cell<usize> = const { std::cell::Cell::new(63) };
}

thread_local! {
    /// When set, every `Obs` created on this thread keeps a readable log of its events (used only when a replay file is
    /// written or replayed; never during the search, and never part of the trace hash).
    static LOG_EVENTS: std::cell::Cell<bool> = const { std::cell::Cell::new(false) };
}

/// Run `f` with event logging switched on for this thread.
pub fn with_event_log<R>(f: impl FnOnce() -> R) -> R {
    LOG_EVENTS.with(|l| l.set(true));
    let r = f();
    LOG_EVENTS.with(|l| l.set(false));
    r
}

/// Human-readable name of an event code (see `stubs::ev`).
pub fn event_name(code: u8) -> String {
    match code {
        1 => "transfer-all".into(),
        2 => "transfer-short".into(),
        3 => "pending".into(),
        9 => "end-of-stream".into(),
        10 => "accept-zero/empty-offer".into(),
        11 => "cancel(drop future)".into(),
        12 => "poll".into(),
        13 => "issue-call".into(),
        14 => "result".into(),
        15 => "sink-full".into(),
        16 => "flush".into(),
        17 => "task-switch".into(),
        20..=25 => format!("c13-sink#{}", code - 20),
        32..=63 => format!("error(kind#{})", code - 32),
        other => format!("event#{other}"),
    }
}

pub struct Obs {
    /// readable event log, only kept while `with_event_log` is active (bounded)
    pub log: Option<Vec<(u8, u64)>>,
    pub steps: u64,
    pub faults: [u64; fk::COUNT],
    pub probes: [u64; pb::COUNT],
    pub trace: Fnv,
    pub nontrivial: bool,
    pub edges: Vec<u32>,
}

impl Obs {
    pub fn new() -> Self {
        let log = if LOG_EVENTS.with(|l| l.get()) { Some(Vec::new()) } else { None };
        Obs { log, steps: 0, faults: [0; fk::COUNT], probes: [0; pb::COUNT], trace: Fnv::new(), nontrivial: false, edges: Vec::new() }
    }
    /// One simulator event (stub call / poll / caller decision); advances simulated time.
    #[inline]
    pub fn event(&mut self, code: u8, a: u64) {
        self.steps += 1;
        self.trace.byte(code);
        self.trace.u64(a);
        BEATS[WORKER.with(|w| w.get())].0.fetch_add(1, Ordering::Relaxed);
        if let Some(l) = &mut self.log {
            if l.len() < 400 {
                l.push((code, a));
            }
        }
    }
    #[inline]
    pub fn fault(&mut self, k: usize) {
        self.faults[k] += 1;
    }
    #[inline]
    pub fn probe(&mut self, p: usize) {
        self.probes[p] += 1;
    }
    /// Abstract (model state, event) pair reached.
    #[inline]
    pub fn edge(&mut self, state: u32, event: u32) {
        let e = (state << 8) | (event & 0xff);
        if !self.edges.contains(&e) {
            self.edges.push(e);
        }
    }
}

#[derive(Clone, Debug)]
pub struct Violation {
    pub clause: String,
    pub detail: String,
    /// short stable identification used to match known findings
    pub key: String,
}

impl Violation {
    pub fn new(clause: &str, detail: impl Into<String>) -> Self {
        Violation { clause: clause.to_string(), detail: detail.into(), key: String::new() }
    }
    pub fn key(mut self, k: impl Into<String>) -> Self {
        self.key = k.into();
        self
    }
}

macro_rules! fail {
    ($clause:expr, $($arg:tt)*) => {
        return Err($crate::engine::Violation::new($clause, format!($($arg)*)))
    };
}
pub(crate) use fail;

#[derive(Clone, Copy, PartialEq, Eq, Debug)]
pub enum Tier {
    Quick,
    Thorough,
}

impl Tier {
    pub fn name(self) -> &'static str {
        match self {
            Tier::Quick => "quick",
            Tier::Thorough => "thorough",
        }
    }
}

pub trait Scenario: Clone + Send + Sync + 'static {
    fn to_json(&self) -> Json;
    fn from_json(j: &Json) -> Result<Self, String>;
    /// Execute against the real code.  Must be a pure function of `self`.
    fn run(&self, obs: &mut Obs) -> Result<(), Violation>;
    /// Simpler variants, most aggressive first.  Every variant must be a legal scenario.
    fn shrink(&self) -> Vec<Self>;
}

pub trait Property: 'static {
    type S: Scenario;
    const ID: &'static str;
    const LEVEL: &'static str;
    fn tag() -> u64 {
        let mut f = Fnv::new();
        f.str(Self::ID);
        f.finish()
    }
    /// Seed-independent systematic scenarios (single/double fault sweeps).
    fn sweeps(tier: Tier) -> Vec<Self::S>;
    /// Lazily enumerated systematic scenarios (too many to materialise), indices `0 .. enumerated(tier)`.
    fn enumerated(_tier: Tier) -> u64 {
        0
    }
    fn enumerate(_tier: Tier, _i: u64) -> Self::S {
        unreachable!()
    }
    /// Number of seeded random runs.
    fn random_runs(tier: Tier) -> u64;
    fn generate(rng: &mut Rng, tier: Tier) -> Self::S;
    /// probes (rare conditions) this property's workload is meant to reach; one stuck at zero is reported
    fn probes() -> Vec<usize>;
    fn rule() -> &'static str;
    fn assumptions() -> Vec<&'static str>;
    fn real_components() -> Vec<&'static str>;
    fn stub_components() -> Vec<&'static str>;
}

// ---------------------------------------------------------------------------------------
// panic capture

thread_local! {
    static LAST_PANIC: std::cell::RefCell<String> = const { std::cell::RefCell::new(String::new()) };
    static QUIET: std::cell::Cell<bool> = const { std::cell::Cell::new(false) };
}

pub fn install_panic_hook() {
    let default = std::panic::take_hook();
    std::panic::set_hook(Box::new(move |info| {
        if QUIET.with(|q| q.get()) {
            let msg = if let Some(s) = info.payload().downcast_ref::<&str>() {
                s.to_string()
            } else if let Some(s) = info.payload().downcast_ref::<String>() {
                s.clone()
            } else {
                "<non-string panic>".to_string()
            };
            let loc = info.location().map(|l| format!("{}:{}", l.file(), l.line())).unwrap_or_default();
            LAST_PANIC.with(|p| *p.borrow_mut() = format!("{msg} @ {loc}"));
        } else {
            default(info)
        }
    }));
}

/// Run a scenario with panics turned into `no_panic` violations.
pub fn run_guarded<S: Scenario>(s: &S, obs: &mut Obs) -> Result<(), Violation> {
    QUIET.with(|q| q.set(true));
    let r = catch_unwind(AssertUnwindSafe(|| s.run(obs)));
    QUIET.with(|q| q.set(false));
    crate::alloc::disarm();
    match r {
        Ok(r) => r,
        Err(_) => {
            let msg = LAST_PANIC.with(|p| p.borrow().clone());
            // a panic raised from the simulator's own source files is a harness bug, not a finding
            let loc = msg.rsplit(" @ ").next().unwrap_or("");
            if loc.starts_with("src/") || loc.contains("/sim/src/") {
                Err(Violation::new("harness_panic", format!("the simulator itself panicked: {msg}")))
            } else {
                Err(Violation::new("no_panic", format!("panicked: {msg}")))
            }
        }
    }
}

// ---------------------------------------------------------------------------------------
// batch execution

pub struct Found<S> {
    pub index: u64,
    pub scenario: S,
    pub violation: Violation,
}

pub struct Aggregate<S> {
    pub evaluations: u64,
    pub sweep_runs: u64,
    pub random_runs: u64,
    pub steps: u64,
    pub faults: [u64; fk::COUNT],
    pub probes: [u64; pb::COUNT],
    pub nontrivial_hashes: Vec<u64>,
    pub nontrivial_runs: u64,
    pub edges: BTreeSet<u32>,
    /// all-run trace digest (order independent): sum and xor of per-run hashes
    pub digest_sum: u64,
    pub digest_xor: u64,
    /// first violation (lowest run index) per clause
    pub found: Vec<Found<S>>,
    pub samples: Vec<(u64, S)>,
}

impl<S> Aggregate<S> {
    fn new() -> Self {
        Aggregate {
            evaluations: 0,
            sweep_runs: 0,
            random_runs: 0,
            steps: 0,
            faults: [0; fk::COUNT],
            probes: [0; pb::COUNT],
            nontrivial_hashes: Vec::new(),
            nontrivial_runs: 0,
            edges: BTreeSet::new(),
            digest_sum: 0,
            digest_xor: 0,
            found: Vec::new(),
            samples: Vec::new(),
        }
    }
    fn merge(&mut self, mut o: Aggregate<S>) {
        self.evaluations += o.evaluations;
        self.sweep_runs += o.sweep_runs;
        self.random_runs += o.random_runs;
        self.steps += o.steps;
        for i in 0..fk::COUNT {
            self.faults[i] += o.faults[i]
        }
        for i in 0..pb::COUNT {
            self.probes[i] += o.probes[i]
        }
        self.nontrivial_hashes.append(&mut o.nontrivial_hashes);
        self.nontrivial_runs += o.nontrivial_runs;
        self.edges.append(&mut o.edges);
        self.digest_sum = self.digest_sum.wrapping_add(o.digest_sum);
        self.digest_xor ^= o.digest_xor;
        for f in o.found {
            match self.found.iter_mut().find(|g| g.violation.clause == f.violation.clause) {
                Some(g) => {
                    if f.index < g.index {
                        *g = f
                    }
                }
                None => self.found.push(f),
            }
        }
        self.samples.append(&mut o.samples);
    }
    fn finish(&mut self) {
        self.nontrivial_hashes.sort_unstable();
        self.nontrivial_hashes.dedup();
        self.found.sort_by_key(|f| f.index);
        self.samples.sort_by_key(|s| s.0);
    }
}

/// Slot the watchdog reads: (run index + 1) of what each worker is executing right now.
pub struct Watch {
    pub slots: Vec<AtomicU64>,
}

pub struct Batch<P: Property> {
    pub seed: u64,
    pub tier: Tier,
    pub sweeps: Arc<Vec<P::S>>,
    pub n_enum: u64,
    pub n_random: u64,
}

impl<P: Property> Batch<P> {
    pub fn new(seed: u64, tier: Tier) -> Self {
        Batch { seed, tier, sweeps: Arc::new(P::sweeps(tier)), n_enum: P::enumerated(tier), n_random: P::random_runs(tier) }
    }

    pub fn total(&self) -> u64 {
        self.sweeps.len() as u64 + self.n_enum + self.n_random
    }

    pub fn n_systematic(&self) -> u64 {
        self.sweeps.len() as u64 + self.n_enum
    }

    /// The scenario of run `index` — a pure function of (seed, tier, index).
    pub fn scenario(&self, index: u64) -> P::S {
        let ns = self.sweeps.len() as u64;
        if index < ns {
            self.sweeps[index as usize].clone()
        } else if index < ns + self.n_enum {
            P::enumerate(self.tier, index - ns)
        } else {
            let ns = ns + self.n_enum;
            let mut rng = Rng::new(run_seed(self.seed, P::tag(), index - ns));
            P::generate(&mut rng, self.tier)
        }
    }

    /// Execute runs `0 .. total` on `workers` threads.  The result does not depend on `workers`.
    pub fn execute(&self, workers: usize, watchdog_secs: u64) -> Aggregate<P::S> {
        let total = self.total();
        let next = Arc::new(AtomicU64::new(0));
        let chunk: u64 = 256;
        let watch = Arc::new(Watch { slots: (0..workers).map(|_| AtomicU64::new(0)).collect() });
        let done = Arc::new(AtomicU64::new(0));
        let merged = Arc::new(Mutex::new(Aggregate::<P::S>::new()));
        // choose sample indices spread over the whole index space
        let sample_every = (total / 6).max(1);

        std::thread::scope(|scope| {
            // watchdog: real time is used here only, to detect a run that never returns
            {
                let watch = watch.clone();
                let done = done.clone();
                let me = self;
                scope.spawn(move || {
                    // (index, how long it has been the current run) -- an absolute ceiling per run, far above anything a
                    // run on the unchanged tree needs, so that a runaway on a mutated tree cannot stall a batch for hours
                    let mut same_run: Vec<(u64, u32)> = vec![(0, 0); watch.slots.len()];
                    let mut last: Vec<((u64, u64), u32)> = vec![((0, 0), 0); watch.slots.len()];
                    while done.load(Ordering::Acquire) == 0 {
                        std::thread::sleep(std::time::Duration::from_millis(250));
                        for (w, slot) in watch.slots.iter().enumerate() {
                            let cur = slot.load(Ordering::Acquire);
                            if cur != 0 && cur == same_run[w].0 {
                                same_run[w].1 += 1;
                                if same_run[w].1 as u64 >= 600 * 4 {
                                    let index = cur - 1;
                                    let s = me.scenario(index);
                                    report_hang::<P>(me.seed, index, &s);
                                }
                            } else {
                                same_run[w] = (cur, 0);
                            }
                            let beat = BEATS[w.min(62)].0.load(Ordering::Relaxed);
                            if cur != 0 && (cur, beat) == last[w].0 {
                                last[w].1 += 1;
                                if last[w].1 as u64 >= watchdog_secs * 4 {
                                    let index = cur - 1;
                                    let s = me.scenario(index);
                                    report_hang::<P>(me.seed, index, &s);
                                }
                            } else {
                                last[w] = ((cur, beat), 0);
                            }
                        }
                    }
                });
            }
            let mut handles = Vec::new();
            for w in 0..workers {
                let next = next.clone();
                let watch = watch.clone();
                let merged = merged.clone();
                let me = self;
                // roomy stacks: a tree whose *other* half is broken can feed the library garbage that a recursive codec
                // follows very deep (pipe world); that must not take the harness down
                let builder = std::thread::Builder::new().name(format!("worker-{w}")).stack_size(BIG_STACK);
                handles.push(builder.spawn_scoped(scope, move || {
                    WORKER.with(|id| id.set(w.min(62)));
                    let slow_report = std::env::var_os("MINISIM_SLOW").is_some();
                    let mut agg = Aggregate::<P::S>::new();
                    loop {
                        let start = next.fetch_add(chunk, Ordering::Relaxed);
                        if start >= total {
                            break;
                        }
                        let end = (start + chunk).min(total);
                        for index in start..end {
                            // generating a scenario consults the library for reference encodings; a panic there must not
                            // silently kill this worker (the batch would finish short and look clean)
                            QUIET.with(|q| q.set(true));
                            let generated = catch_unwind(AssertUnwindSafe(|| me.scenario(index)));
                            QUIET.with(|q| q.set(false));
                            let s = match generated {
                                Ok(s) => s,
                                Err(_) => {
                                    let msg = LAST_PANIC.with(|p| p.borrow().clone());
                                    eprintln!("HARNESS-ERROR scenario {index} of {} could not be generated: {msg}", P::ID);
                                    std::process::exit(2);
                                }
                            };
                            watch.slots[w].store(index + 1, Ordering::Release);
                            let mut obs = Obs::new();
                            let t_run = std::time::Instant::now();
                            let r = with_absurd_hook::<P, _>(&s, me.seed, index, false, || run_guarded(&s, &mut obs));
                            if slow_report && t_run.elapsed().as_millis() > 300 {
                                // diagnostics only (stderr): never part of the trace
                                eprintln!("slow run index={index} ms={} steps={}", t_run.elapsed().as_millis(), obs.steps);
                            }
                            watch.slots[w].store(0, Ordering::Release);
                            agg.evaluations += 1;
                            if index < me.n_systematic() {
                                agg.sweep_runs += 1
                            } else {
                                agg.random_runs += 1
                            }
                            agg.steps += obs.steps;
                            for i in 0..fk::COUNT {
                                agg.faults[i] += obs.faults[i]
                            }
                            for i in 0..pb::COUNT {
                                agg.probes[i] += obs.probes[i]
                            }
                            let h = obs.trace.finish();
                            agg.digest_sum = agg.digest_sum.wrapping_add(h);
                            agg.digest_xor ^= h.rotate_left((index % 63) as u32);
                            if obs.nontrivial {
                                agg.nontrivial_runs += 1;
                                agg.nontrivial_hashes.push(h);
                            }
                            for e in &obs.edges {
                                agg.edges.insert(*e);
                            }
                            if index % sample_every == 0 && agg.samples.len() < 8 {
                                agg.samples.push((index, s.clone()));
                            }
                            if let Err(v) = r {
                                if !agg.found.iter().any(|f| f.violation.clause == v.clause) {
                                    agg.found.push(Found { index, scenario: s, violation: v });
                                }
                            }
                        }
                        // keep per-worker memory bounded in thorough runs
                        if agg.nontrivial_hashes.len() > 4_000_000 {
                            agg.nontrivial_hashes.sort_unstable();
                            agg.nontrivial_hashes.dedup();
                        }
                    }
                    merged.lock().unwrap().merge(agg);
                }).expect("spawn worker"));
            }
            for h in handles {
                let _ = h.join();
            }
            done.store(1, Ordering::Release);
        });
        let mut m = Arc::try_unwrap(merged).ok().expect("workers joined").into_inner().unwrap();
        m.finish();
        m
    }
}

/// Stack size of every thread that calls into the code under test (virtual memory; touched pages only are committed).
pub const BIG_STACK: usize = 1 << 30;

static REPLAY_PATH: std::sync::OnceLock<String> = std::sync::OnceLock::new();

thread_local! {
    static ABSURD_CTX: std::cell::Cell<(u64, u64, bool)> = const { std::cell::Cell::new((0, 0, false)) };
}

/// Called from inside the counting allocator (measuring suspended) when the code under test asks for >= 64 GiB at once.
fn absurd_alloc<P: Property>(p: *const (), size: usize) {
    // SAFETY: the pointer was taken from a live `&P::S` by `with_absurd_hook`, which clears the hook before the borrow ends
    let s: &P::S = unsafe { &*(p as *const P::S) };
    let (seed, index, replaying) = ABSURD_CTX.with(|c| c.get());
    let v = Violation::new("alloc_absurd", format!("the code under test requested a single allocation of {size} bytes (the process would abort)"));
    if replaying {
        println!("REPLAY property={} result=violation clause=alloc_absurd steps=0", P::ID);
        println!("  detail: {}", v.detail);
        println!("VIOLATION property={} replay={} clause=alloc_absurd ", P::ID, REPLAY_PATH.get().map(|s| s.as_str()).unwrap_or("?"));
    } else {
        let path = write_replay::<P>(s, &v, seed, index, 0);
        println!("  detail: {}", v.detail);
        println!("VIOLATION property={} replay={} clause=alloc_absurd (not minimised: the run would abort the process)", P::ID, path);
    }
    std::process::exit(1);
}

/// Run `f` (which runs scenario `s`) with the absurd-allocation report installed on this thread.
pub fn with_absurd_hook<P: Property, R>(s: &P::S, seed: u64, index: u64, replaying: bool, f: impl FnOnce() -> R) -> R {
    ABSURD_CTX.with(|c| c.set((seed, index, replaying)));
    crate::alloc::set_absurd_hook(Some((absurd_alloc::<P>, s as *const P::S as *const ())));
    let r = f();
    crate::alloc::set_absurd_hook(None);
    r
}

fn report_hang<P: Property>(seed: u64, index: u64, s: &P::S) -> ! {
    let v = Violation::new("hang", "run did not return within the watchdog limit (no stub call cap reached)");
    let path = write_replay::<P>(s, &v, seed, index, 0);
    println!("VIOLATION property={} replay={} clause=hang (not minimised: the run does not terminate)", P::ID, path);
    std::process::exit(1);
}

// ---------------------------------------------------------------------------------------
// minimiser

pub struct Minimised<S> {
    pub scenario: S,
    pub violation: Violation,
    pub executions: u32,
}

/// Greedy delta debugging: accept a simpler scenario while the same clause still fails.
pub fn minimise<S: Scenario>(s: &S, v: &Violation, budget: u32) -> Minimised<S> {
    let mut cur = s.clone();
    let mut curv = v.clone();
    let mut execs = 0u32;
    'outer: loop {
        // `shrink` may call into the library (reference encodings): on a tree where that panics, stop minimising instead
        // of taking the harness down
        QUIET.with(|q| q.set(true));
        let cands = catch_unwind(AssertUnwindSafe(|| cur.shrink())).unwrap_or_default();
        QUIET.with(|q| q.set(false));
        for cand in cands {
            if execs >= budget {
                break 'outer;
            }
            execs += 1;
            let mut obs = Obs::new();
            if let Err(v2) = run_guarded(&cand, &mut obs) {
                if v2.clause == curv.clause {
                    cur = cand;
                    curv = v2;
                    continue 'outer;
                }
            }
        }
        break;
    }
    Minimised { scenario: cur, violation: curv, executions: execs }
}

// ---------------------------------------------------------------------------------------
// replay files

pub fn verif_dir() -> String {
    std::env::var("VERIF_DIR").unwrap_or_else(|_| "/verif".to_string())
}

pub fn write_replay<P: Property>(s: &P::S, v: &Violation, seed: u64, index: u64, min_execs: u32) -> String {
    // the executed schedule and fault trace of this scenario (first 400 simulator events), for the reader of the file; replay
    // itself only needs `scenario`
    let executed: Vec<Json> = if v.clause == "hang" || v.clause == "alloc_absurd" {
        Vec::new()
    } else {
        with_event_log(|| {
            let mut obs = Obs::new();
            let _ = run_guarded(s, &mut obs);
            obs.log.unwrap_or_default().iter().enumerate().map(|(i, (c, a))| Json::Str(format!("{i}: {} {a}", event_name(*c)))).collect()
        })
    };
    let j = Json::obj()
        .set("property", P::ID)
        .set("clause", v.clause.as_str())
        .set("detail", v.detail.as_str())
        .set("key", v.key.as_str())
        .set("seed", seed)
        .set("run_index", index)
        .set("minimiser_executions", min_execs)
        .set("scenario", s.to_json())
        .set("executed_trace_note", "simulated time = event index; '<event> <argument>' where the argument is a byte count, stream offset or call index")
        .set("executed_trace", Json::Arr(executed));
    let mut h = Fnv::new();
    h.str(&s.to_json().to_string_compact());
    h.str(&v.clause);
    let dir = format!("{}/replays/{}", verif_dir(), P::ID);
    let _ = std::fs::create_dir_all(&dir);
    let path = format!("{}/{}-{:016x}.json", dir, v.clause, h.finish());
    if let Err(e) = std::fs::write(&path, j.to_string_pretty()) {
        eprintln!("HARNESS-ERROR cannot write replay {path}: {e}");
        std::process::exit(2);
    }
    path
}

/// `minisim replay <path>`: exit 1 and print the violation if it reproduces, 0 if the scenario passes.
pub fn replay<P: Property>(j: &Json, path: &str) -> i32 {
    let s = match j.get("scenario").ok_or("no scenario".to_string()).and_then(P::S::from_json) {
        Ok(s) => s,
        Err(e) => {
            eprintln!("HARNESS-ERROR bad replay file {path}: {e}");
            return 2;
        }
    };
    let expected = j.get("clause").and_then(|c| c.as_str()).unwrap_or("");
    let _ = REPLAY_PATH.set(path.to_string());
    let (res, obs) = with_event_log(|| {
        let mut obs = Obs::new();
        let r = with_absurd_hook::<P, _>(&s, 0, 0, true, || run_guarded(&s, &mut obs));
        (r, obs)
    });
    if let Some(l) = &obs.log {
        for (i, (c, a)) in l.iter().enumerate().take(60) {
            println!("  t={i:<3} {} {a}", event_name(*c));
        }
        if l.len() > 60 {
            println!("  ... ({} more events)", obs.steps.saturating_sub(60));
        }
    }
    match res {
        Ok(()) => {
            println!("REPLAY property={} path={} result=pass steps={}", P::ID, path, obs.steps);
            0
        }
        Err(v) => {
            println!(
                "REPLAY property={} path={} result=violation clause={} expected_clause={} steps={} trace={:016x}",
                P::ID,
                path,
                v.clause,
                expected,
                obs.steps,
                obs.trace.finish()
            );
            println!("  detail: {}", v.detail);
            println!("VIOLATION property={} replay={}", P::ID, path);
            1
        }
    }
}
