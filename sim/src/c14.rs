//! C14 — blocking framed I/O under fragmentation, EINTR and truncation.
//!
//! World: `Writer<SimSink>` -> byte stream (+ spliced hand-built frames, + optional cut) ->
//! `Reader<SimSource>`.  Blocking code has no concurrency to schedule; what is scripted is every
//! outcome of every `write`/`read` call of the environment.

use crate::c15::{clip, shrink_vec};
use crate::engine::{fail, fk, pb, Obs, Property, Scenario, Tier, Violation};
use crate::json::{hex, unhex, Json};
use crate::rng::Rng;
use crate::stubs::*;
use crate::values::*;
use minicbor::Encode;
use minicbor_io::{Error, Reader, Writer};
use std::cell::RefCell;
use std::fmt::Debug;
use std::rc::Rc;

#[derive(Clone, Debug, PartialEq)]
pub enum WKind {
    /// value written by the real writer (type may differ from the reader's family => poison frame)
    Val(ValSpec),
    /// value whose Encode impl fails after `partial` bytes
    Fail(u32),
    /// hand-built frame spliced into the stream at this position: declared length + body
    Raw { declared: u32, body: Vec<u8> },
}

#[derive(Clone, Debug)]
pub struct C14 {
    pub family: Ty,
    pub items: Vec<WKind>,
    pub w_max_len_mode: u8,
    pub w_init_buf: u32,
    pub w_use_ctx: bool,
    pub w_sink: Vec<Step>,
    /// non-Interrupted errors in the sink lane are served (fatal-error class)
    pub w_fatal: bool,
    pub cut: Option<u32>,
    /// 0 default; 1 == largest well-formed declared length; 2 == that - 1; 3 == 16
    pub r_max_len_mode: u8,
    pub r_init_buf: u32,
    pub r_use_ctx: bool,
    pub r_src: Vec<Step>,
    pub r_fatal: bool,
    /// index of the write / read call before which set_max_len is applied (earlier calls see the default)
    pub w_knob_at: u32,
    pub r_knob_at: u32,
    /// into_parts() + with_buffer() round trip before this write / read call (at a frame boundary)
    pub w_rewrap_at: Option<u32>,
    pub r_rewrap_at: Option<u32>,
    /// call the reader()/reader_mut()/writer()/writer_mut() accessors between calls without doing I/O through them
    pub touch: bool,
    /// the source overwrites the unfilled part of the buffer it is given
    pub scribble: bool,
    /// the source overrides `read_exact` with an all-or-nothing version (io::Cursor-like)
    pub r_exact: bool,
    /// replay both lanes this many more times before the benign default takes over
    pub lane_repeat: u32,
}

const HOSTILE_MIN: u32 = 600 * 1024;

#[derive(Debug, PartialEq, Clone)]
enum Exp {
    Value(String),
    DecodeErr,
    CleanEnd,
    Eof,
    InvalidLen,
}

#[derive(Debug)]
enum RRes {
    Value(String),
    CleanEnd,
    Io(std::io::ErrorKind),
    Decode(String),
    InvalidLen,
    Other(String),
}

fn rclass<T: Debug>(r: Result<Option<T>, Error>) -> RRes {
    match r {
        Ok(Some(v)) => RRes::Value(fingerprint(&v)),
        Ok(None) => RRes::CleanEnd,
        Err(Error::Io(e)) => RRes::Io(e.kind()),
        Err(Error::Decode(e)) => RRes::Decode(e.to_string()),
        Err(Error::InvalidLen) => RRes::InvalidLen,
        Err(e) => RRes::Other(e.to_string()),
    }
}

// ---------------------------------------------------------------------------------------
// writer phase

struct WVisit<'a> {
    writer: &'a mut Writer<SimSink>,
    use_ctx: bool,
}

impl<'a> EncVisitor for WVisit<'a> {
    type Out = Result<usize, Error>;
    fn visit<T: Encode<()> + Debug>(self, v: &T) -> Self::Out {
        if self.use_ctx {
            self.writer.write_with(v, &mut ())
        } else {
            self.writer.write(v)
        }
    }
}

struct Written {
    stream: Vec<u8>,
    /// the writer hit a fatal sink error; the stream ends inside a frame
    broken: bool,
}

fn writer_phase(s: &C14, obs: &Rc<RefCell<Obs>>) -> Result<Written, Violation> {
    let payloads: Vec<Option<Vec<u8>>> = s
        .items
        .iter()
        .map(|it| match it {
            WKind::Val(v) => reference_encoding(v),
            _ => None,
        })
        .collect();
    let max_payload = payloads.iter().flatten().map(|p| p.len()).max().unwrap_or(0);
    let knob_len: usize = match s.w_max_len_mode {
        1 => max_payload,
        2 => max_payload.saturating_sub(1),
        3 => 8,
        9 => u32::MAX as usize,
        _ => 512 * 1024,
    };
    let knob_at = if s.w_max_len_mode == 0 { 0 } else { s.w_knob_at as usize };
    let max_len_for = |idx: usize| if idx >= knob_at { knob_len } else { 512 * 1024 };
    let n = s.items.len() as u64;
    let total: u64 = payloads.iter().flatten().map(|p| p.len() as u64 + 4).sum();
    // a benign write_all takes one call per frame; scripted short writes at most one extra call per lane step
    // implementation-agnostic: even a writer that offered one byte per call would stay below this
    let budget = s.w_sink.len() as u64 * (1 + s.lane_repeat as u64) + 8 * (n + 1) + 64 + byte_budget(total as usize);
    let core = SinkCore::new(s.w_sink.clone(), None, budget, obs.clone());
    core.borrow_mut().allow_fatal = s.w_fatal;
    core.borrow_mut().repeat_left = s.lane_repeat;
    core.borrow_mut().data_cap = 2 * total as usize + 65_536;
    {
        let mut layout = Layout::default();
        let mut off = 0;
        for (i, p) in payloads.iter().enumerate() {
            if let Some(p) = p {
                if p.len() <= max_len_for(i) {
                    layout.push(off, p.len());
                    off += 4 + p.len();
                }
            }
        }
        core.borrow_mut().layout = layout;
    }
    let mut writer = Writer::with_buffer(SimSink(core.clone()), garbage(s.w_init_buf as usize));
    if s.w_init_buf > 0 {
        obs.borrow_mut().fault(fk::garbage_buffer);
    }
    // `stream` = what the reader will see: sink content with raw frames spliced in at frame boundaries
    let mut stream: Vec<u8> = Vec::new();
    let mut broken = false;
    for (idx, it) in s.items.iter().enumerate() {
        if s.w_rewrap_at == Some(idx as u32) {
            let (sink, buf) = writer.into_parts();
            writer = Writer::with_buffer(sink, buf);
            if s.w_max_len_mode != 0 && idx > knob_at {
                writer.set_max_len(knob_len as u32);
            }
            obs.borrow_mut().probe(pb::rewrap_at_boundary);
        }
        if s.w_max_len_mode != 0 && idx == knob_at {
            writer.set_max_len(knob_len as u32);
            obs.borrow_mut().fault(fk::max_len_knob);
            if idx > 0 {
                obs.borrow_mut().probe(pb::max_len_changed_mid_run);
            }
        }
        let max_len = max_len_for(idx);
        if s.touch {
            let _ = writer.writer_mut();
            let _ = writer.writer();
        }
        let before = core.borrow().data.len();
        let at = format!("write #{idx}");
        obs.borrow_mut().event(ev::ISSUE, idx as u64);
        let (res, expect): (Result<usize, Error>, Option<&Vec<u8>>) = match it {
            WKind::Raw { declared, body } => {
                stream.extend_from_slice(&declared.to_be_bytes());
                stream.extend_from_slice(body);
                let mut o = obs.borrow_mut();
                if *declared >= HOSTILE_MIN {
                    o.fault(fk::hostile_prefix)
                } else {
                    o.fault(fk::poison_frame)
                }
                if *declared == 0 {
                    o.probe(pb::zero_length_frame)
                }
                continue;
            }
            WKind::Fail(partial) => {
                obs.borrow_mut().fault(fk::encode_fail);
                if *partial > 0 {
                    obs.borrow_mut().probe(pb::failed_encode_partial_bytes);
                }
                (WVisit { writer: &mut writer, use_ctx: s.w_use_ctx }.visit(&FailEncode { partial: *partial as usize }), None)
            }
            WKind::Val(spec) => {
                let p = payloads[idx].as_ref();
                if let Some(p) = p {
                    let mut o = obs.borrow_mut();
                    if p.len() == max_len {
                        o.probe(pb::frame_len_eq_max_len)
                    }
                    if p.len() == max_len + 1 {
                        o.probe(pb::frame_len_eq_max_len_plus_1)
                    }
                    if p.len() > max_len {
                        o.fault(fk::oversize_value)
                    }
                    if p.len() >= 65536 {
                        o.probe(pb::large_frame_ge_64k)
                    }
                }
                (with_value(spec, WVisit { writer: &mut writer, use_ctx: s.w_use_ctx }), p)
            }
        };
        let core_b = core.borrow();
        if core_b.cap_hit {
            fail!("progress", "{at}: sink call cap ({budget}) exceeded");
        }
        let gained = &core_b.data[before..];
        let fits = expect.map(|p| p.len() <= max_len).unwrap_or(false);
        if let Some(k) = core_b.fatal_served {
            // fatal sink error: must surface as that error, never as success
            match &res {
                Err(Error::Io(e)) if e.kind() == k.io() => {}
                other => fail!("w_fatal_passthrough", "{at}: sink failed with {k:?} but write returned {:?}", other.as_ref().map_err(|e| e.to_string())),
            }
            if let Some(p) = expect {
                let f = frame(p);
                if gained.len() > f.len() || gained != &f[..gained.len()] {
                    fail!("w_frame_format", "{at}: bytes emitted before the sink error are not a prefix of the frame");
                }
            }
            stream.extend_from_slice(gained);
            broken = true;
            break;
        }
        match (res, expect, fits) {
            (Ok(nret), Some(p), true) => {
                let f = frame(p);
                if gained != &f[..] {
                    let k = gained.iter().zip(f.iter()).position(|(a, b)| a != b).unwrap_or(gained.len().min(f.len()));
                    fail!(
                        "w_frame_format",
                        "{at}: sink gained {} bytes, frame(E(v)) is {} bytes; first difference at offset {k}: got {} want {}",
                        gained.len(),
                        f.len(),
                        hex(&gained[k.min(gained.len())..gained.len().min(k + 12)]),
                        hex(&f[k.min(f.len())..f.len().min(k + 12)])
                    );
                }
                if nret != p.len() {
                    fail!("w_return_len", "{at}: returned Ok({nret}), payload is {} bytes", p.len());
                }
                stream.extend_from_slice(gained);
            }
            (Ok(nret), Some(p), false) => {
                fail!("w_max_len", "{at}: returned Ok({nret}) for a {} byte payload with max_len {max_len}; sink gained {} bytes", p.len(), gained.len())
            }
            (Ok(nret), None, _) => fail!("w_reject_silent", "{at}: returned Ok({nret}) for a value whose encoding fails"),
            (Err(Error::InvalidLen), Some(p), false) => {
                if !gained.is_empty() {
                    fail!("w_max_len", "{at}: InvalidLen for a {} byte payload but {} bytes were emitted", p.len(), gained.len());
                }
            }
            (Err(Error::InvalidLen), Some(p), true) => fail!("w_max_len", "{at}: InvalidLen for a {} byte payload although max_len is {max_len}", p.len()),
            (Err(Error::Encode(_)), None, _) => {
                if !gained.is_empty() {
                    fail!("w_reject_silent", "{at}: encode failed but {} bytes were emitted: {}", gained.len(), hex(&gained[..gained.len().min(16)]));
                }
            }
            (Err(Error::Io(e)), _, _) if e.kind() == std::io::ErrorKind::Interrupted => {
                fail!("w_eintr_transparent", "{at}: Interrupted surfaced to the caller")
            }
            (Err(e), _, _) => fail!("w_frame_format", "{at}: unexpected error {e}"),
        }
    }
    if !broken {
        let before = core.borrow().data.len();
        if let Err(e) = writer.flush() {
            fail!("w_frame_format", "flush failed: {e}");
        }
        if core.borrow().data.len() != before {
            fail!("w_frame_format", "flush emitted bytes");
        }
        // stale buffer bytes must not leak: into_parts gives the sink back
        let (sink, _buf) = writer.into_parts();
        drop(sink);
    }
    Ok(Written { stream, broken })
}

// ---------------------------------------------------------------------------------------
// reader phase

struct RVisit<'a> {
    s: &'a C14,
    obs: Rc<RefCell<Obs>>,
    stream: Vec<u8>,
}

impl<'a> FamVisitor for RVisit<'a> {
    type Out = Result<(), Violation>;
    fn visit<F: Family>(self) -> Self::Out {
        let s = self.s;
        let obs = self.obs;
        let mut stream = self.stream;
        let full_len = stream.len();
        if let Some(c) = s.cut {
            stream.truncate((c as usize).min(full_len));
        }
        // ---- model: sequential parser over the stream as the reader will see it
        let mut frames: Vec<(usize, usize, bool)> = Vec::new(); // (start, declared, complete)
        {
            let mut pos = 0;
            while stream.len() - pos >= 4 {
                let d = u32::from_be_bytes([stream[pos], stream[pos + 1], stream[pos + 2], stream[pos + 3]]) as usize;
                let complete = stream.len() - pos - 4 >= d;
                frames.push((pos, d, complete));
                if !complete {
                    break;
                }
                pos += 4 + d;
            }
        }
        let largest_ok = frames.iter().filter(|f| f.2 && (f.1 as u32) < HOSTILE_MIN).map(|f| f.1).max().unwrap_or(0);
        let knob_len: usize = match s.r_max_len_mode {
            1 => largest_ok,
            2 => largest_ok.saturating_sub(1),
            3 => 16,
            4 => 32 << 20,
            // "no limit" on the reading side is 64 MiB, not u32::MAX: a MUTATED reader that loses its place reads four
            // arbitrary bytes as a length, and without any limit every such run would zero-fill gigabytes
            9 => 64 << 20,
            _ => 512 * 1024,
        };
        let knob_at = if s.r_max_len_mode == 0 { 0 } else { s.r_knob_at as usize };
        let max_len_for = |idx: usize| if idx >= knob_at { knob_len } else { 512 * 1024 };
        let mut expected: Vec<Exp> = Vec::new();
        let mut layout = Layout::default();
        {
            let mut pos = 0;
            loop {
                if pos == stream.len() {
                    expected.push(Exp::CleanEnd);
                    break;
                }
                if stream.len() - pos < 4 {
                    expected.push(Exp::Eof);
                    layout.push(pos, usize::MAX / 2);
                    break;
                }
                let d = u32::from_be_bytes([stream[pos], stream[pos + 1], stream[pos + 2], stream[pos + 3]]) as usize;
                layout.push(pos, d);
                let max_len = max_len_for(expected.len());
                if d > max_len {
                    expected.push(Exp::InvalidLen);
                    break;
                }
                if stream.len() - pos - 4 < d {
                    expected.push(Exp::Eof);
                    break;
                }
                let payload = &stream[pos + 4..pos + 4 + d];
                expected.push(match direct_decode::<F>(payload) {
                    Ok(fp) => Exp::Value(fp),
                    Err(_) => Exp::DecodeErr,
                });
                {
                    let mut o = obs.borrow_mut();
                    if d == max_len {
                        o.probe(pb::frame_len_eq_max_len)
                    }
                    if d == 0 {
                        o.probe(pb::zero_length_frame)
                    }
                }
                pos += 4 + d;
            }
        }
        for w in expected.windows(2) {
            if w[0] == Exp::DecodeErr && matches!(w[1], Exp::Value(_)) {
                obs.borrow_mut().probe(pb::decode_error_then_good_frame);
            }
        }
        let frame_ends: Vec<usize> = layout.frames.iter().map(|(st, l)| st.saturating_add(4).saturating_add(*l)).collect();
        let payload_lens: Vec<usize> = layout.frames.iter().map(|(_, l)| *l).collect();

        // ---- world
        let n = expected.len() as u64;
        // implementation-agnostic: even a reader that asked for one byte per call would stay below this
        let budget = s.r_src.len() as u64 * (1 + s.lane_repeat as u64) + 8 * (n + 2) + 64 + byte_budget(stream.len());
        let core = SrcCore::new(stream.clone(), s.r_src.clone(), layout, budget, obs.clone());
        core.borrow_mut().allow_fatal = s.r_fatal;
        core.borrow_mut().scribble = s.scribble;
        core.borrow_mut().exact_override = s.r_exact;
        core.borrow_mut().repeat_left = s.lane_repeat;
        let init = garbage(s.r_init_buf as usize);
        let init_cap = init.capacity();
        let mut reader = Reader::with_buffer(SimSource(core.clone()), init);
        if s.r_init_buf > 0 {
            obs.borrow_mut().fault(fk::garbage_buffer);
        }
        let mut i = 0usize;
        let mut last_len: Option<usize> = None;
        let mut seen_max_final = 512 * 1024usize;
        let mut refused_at: Option<usize> = None;
        let cap_check = |buf: &Vec<u8>, seen_max: usize, when: &str| -> Result<(), Violation> {
            // the frame buffer is the reader's own allocation: it may never exceed the configured maximum
            // (or the capacity of the buffer the caller handed in)
            if buf.capacity() > seen_max.max(init_cap) {
                fail!(
                    "r_buffer_cap",
                    "{when}: the reader's frame buffer has capacity {} although max_len is {seen_max} (initial capacity {init_cap})",
                    buf.capacity()
                );
            }
            Ok(())
        };
        'drive: loop {
            // (only while the source has not delivered a byte beyond that boundary: a reader that reads ahead may hold
            // such bytes, and nothing in C14 says `into_parts` hands them back)
            let boundary = if i == 0 { Some(0) } else { frame_ends.get(i - 1).copied() };
            if s.r_rewrap_at == Some(i as u32) && boundary == Some(core.borrow().pos) {
                // every completed read call leaves the reader at a frame boundary
                let (src, buf) = reader.into_parts();
                if i > 0 {
                    cap_check(&buf, seen_max_final, "into_parts")?;
                }
                reader = Reader::with_buffer(src, buf);
                if s.r_max_len_mode != 0 && i > knob_at {
                    reader.set_max_len(knob_len as u32);
                }
                obs.borrow_mut().probe(pb::rewrap_at_boundary);
            }
            if s.r_max_len_mode != 0 && i == knob_at {
                reader.set_max_len(knob_len as u32);
                obs.borrow_mut().fault(fk::max_len_knob);
                if i > 0 {
                    obs.borrow_mut().probe(pb::max_len_changed_mid_run);
                }
            }
            let max_len = max_len_for(i);
            if s.touch {
                let _ = reader.reader_mut();
                let _ = reader.reader();
            }
            // the buffer may have grown under an earlier, larger max_len: bound by the largest limit seen so far
            let seen_max = if knob_at > 0 && s.r_max_len_mode != 0 { (512 * 1024usize).max(knob_len) } else { max_len };
            seen_max_final = seen_max;
            // a NEW allocation made during this read is judged against the limit in force now: capacity inherited from the
            // caller or from an earlier, larger limit may stay (see `cap_check`), but nothing larger than the current
            // maximum may be requested for a frame
            let base_bound = max_len;
            let at = format!("read #{i}");
            obs.borrow_mut().event(ev::ISSUE, i as u64);
            let calls_before = core.borrow().calls;
            // the allocation counter is armed around the library call only: rendering the result for comparison is the
            // harness's own business
            let mut unit = ();
            crate::alloc::arm();
            let raw = if s.r_use_ctx { reader.read_with::<(), F::Of<'_>>(&mut unit) } else { reader.read::<F::Of<'_>>() };
            let stats = crate::alloc::disarm();
            let r = rclass(raw);
            let c = core.borrow();
            if c.cap_hit {
                fail!("progress", "{at}: source call cap ({budget}) exceeded");
            }
            obs.borrow_mut().event(ev::RESULT, 0);
            // allocation bound: never driven by the declared length beyond 2 x max_len
            // what decoding itself may allocate on top of the frame buffer: nothing to speak of for the families that borrow
            // from the buffer or are scalars (an error value at most), a generous multiple of the payload for owning ones
            let lean = matches!(F::TY, Ty::U64 | Ty::Str | Ty::ByteSliceRef | Ty::Unit | Ty::Nothing | Ty::Tuple3 | Ty::OptStr | Ty::SelfDesc | Ty::Embedded);
            let decode_slop = if lean {
                96
            } else if i < expected.len() && matches!(expected[i], Exp::Value(_) | Exp::DecodeErr) {
                64 * payload_lens[i] + 4096
            } else {
                4096
            };
            if stats.max_request > base_bound + decode_slop {
                fail!(
                    "r_alloc_bound",
                    "{at}: a single allocation of {} bytes was requested; max_len is {max_len} (bound used: {} + {})",
                    stats.max_request,
                    base_bound,
                    decode_slop
                );
            }
            // fatal source error: must surface as that error
            if let Some(k) = c.fatal_served {
                match &r {
                    RRes::Io(e) if *e == k.io() => break 'drive,
                    other => fail!("r_fatal_passthrough", "{at}: source failed with {k:?} but read returned {}", clip(&format!("{other:?}"))),
                }
            }
            if i >= expected.len() {
                // only reachable after CleanEnd (we stop at the other terminals)
                match r {
                    RRes::CleanEnd => {
                        obs.borrow_mut().probe(pb::clean_end_repeated);
                        break 'drive;
                    }
                    other => fail!("r_clean_end", "{at}: after a clean end a further read returned {}", clip(&format!("{other:?}"))),
                }
            }
            let exp = &expected[i];
            match (&r, exp) {
                (RRes::Value(v), Exp::Value(e)) => {
                    if v != e {
                        let kind = if i > 0 && expected[..i].contains(&Exp::Value(v.clone())) {
                            "duplicated/stale"
                        } else if expected[i + 1..].contains(&Exp::Value(v.clone())) {
                            "lost/reordered"
                        } else {
                            "torn"
                        };
                        fail!("r_sequence", "{at}: got {} but frame {i} holds {} ({kind})", clip(v), clip(e));
                    }
                    if c.pos < frame_ends[i] {
                        fail!("r_no_early_value", "{at}: value returned after {} bytes were delivered; its frame ends at {}", c.pos, frame_ends[i]);
                    }
                    let mut o = obs.borrow_mut();
                    if let Some(l) = last_len {
                        if payload_lens[i] < l {
                            o.probe(pb::buffer_shrinks_between_frames)
                        } else if payload_lens[i] > l {
                            o.probe(pb::buffer_grows_between_frames)
                        }
                    }
                    last_len = Some(payload_lens[i]);
                }
                (RRes::Decode(_), Exp::DecodeErr) => {
                    last_len = Some(payload_lens[i]);
                }
                (RRes::CleanEnd, Exp::CleanEnd) => {}
                (RRes::Io(k), Exp::Eof) if *k == std::io::ErrorKind::UnexpectedEof => break 'drive,
                (RRes::InvalidLen, Exp::InvalidLen) => {
                    refused_at = Some(max_len);
                    break 'drive;
                }
                // ---- mismatches, attributed to the clause of the statement they break
                (RRes::Io(k), _) if *k == std::io::ErrorKind::Interrupted => fail!("r_eintr_transparent", "{at}: Interrupted surfaced to the caller"),
                (got, Exp::Eof) => fail!("r_truncation", "{at}: the stream ends inside frame {i} but read returned {}", clip(&format!("{got:?}"))),
                (got, Exp::InvalidLen) => fail!("r_max_len", "{at}: frame {i} declares {} bytes > max_len {max_len} but read returned {}", payload_lens[i], clip(&format!("{got:?}"))),
                (RRes::InvalidLen, _) => match payload_lens.get(i) {
                    Some(l) => fail!("r_max_len", "{at}: InvalidLen although frame {i} declares {l} bytes <= max_len {max_len}"),
                    None => fail!("r_clean_end", "{at}: InvalidLen although every frame was read and the stream ended at a boundary"),
                },
                (RRes::CleanEnd, e) => fail!("r_sequence", "{at}: clean end reported but the stream still holds {} (lost)", clip(&format!("{e:?}"))),
                (got, Exp::CleanEnd) => fail!("r_clean_end", "{at}: all frames were read and the stream ended at a boundary, but read returned {}", clip(&format!("{got:?}"))),
                (RRes::Io(k), _) if *k == std::io::ErrorKind::UnexpectedEof => fail!("r_sequence", "{at}: unexpected-eof although frame {i} is complete in the stream"),
                (got, e) => {
                    let desync = i > 0 && expected[i - 1] == Exp::DecodeErr;
                    fail!(
                        if desync { "r_resync" } else { "r_sequence" },
                        "{at}: expected {} got {}{}",
                        clip(&format!("{e:?}")),
                        clip(&format!("{got:?}")),
                        if desync { " (frame after a payload that failed to decode)" } else { "" }
                    )
                }
            }
            let _ = calls_before;
            drop(c);
            i += 1;
        }
        if let Some(limit) = refused_at {
            // The allocation sentence has no "until the first error" proviso.  What the reader returns after it refused a
            // frame is not specified (this one is desynchronised by design) and is not judged, but whatever it does it must
            // not allocate beyond the limit -- also when the caller touches the limit again before it goes on reading.
            reader.set_max_len(limit as u32);
            for k in 0..3 {
                // the desynchronised reader will take the next four bytes of the stream for a length: keep a MUTATED tree
                // (one that sizes its buffer before checking the limit) from being asked for gigabytes
                {
                    let c = core.borrow();
                    let rest = &c.data[c.pos.min(c.data.len())..];
                    if rest.len() >= 4 && u32::from_be_bytes([rest[0], rest[1], rest[2], rest[3]]) > (32 << 20) {
                        break;
                    }
                }
                crate::alloc::arm();
                let raw = reader.read::<F::Of<'_>>();
                let stats = crate::alloc::disarm();
                let r = rclass(raw);
                if core.borrow().cap_hit {
                    break;
                }
                let bound = seen_max_final.max(init_cap).max(64);
                if stats.max_request > bound + 64 * bound.min(1 << 16) + 4096 {
                    fail!("r_alloc_bound", "read #{k} after InvalidLen: a single allocation of {} bytes was requested; max_len is {limit}", stats.max_request);
                }
                if matches!(r, RRes::CleanEnd | RRes::Io(_)) {
                    break;
                }
            }
        }
        let (_src, buf) = reader.into_parts();
        cap_check(&buf, seen_max_final, "end of run")
    }
}

impl C14 {
    fn run_inner(&self, obs: Rc<RefCell<Obs>>) -> Result<(), Violation> {
        let w = writer_phase(self, &obs)?;
        let _ = w.broken;
        with_family(self.family, RVisit { s: self, obs, stream: w.stream })
    }
}

fn wkind_to_json(k: &WKind) -> Json {
    match k {
        WKind::Val(v) => v.to_json(),
        WKind::Fail(p) => Json::obj().set("fail_encode_after", *p),
        WKind::Raw { declared, body } => Json::obj().set("raw_declared", *declared).set("raw_body", hex(body)),
    }
}

fn wkind_from_json(j: &Json) -> Result<WKind, String> {
    if let Some(p) = j.get("fail_encode_after") {
        Ok(WKind::Fail(p.as_u64().ok_or("fail")? as u32))
    } else if let Some(d) = j.get("raw_declared") {
        Ok(WKind::Raw { declared: d.as_u64().ok_or("declared")? as u32, body: j.get("raw_body").and_then(|b| b.as_str()).and_then(unhex).ok_or("body")? })
    } else {
        Ok(WKind::Val(ValSpec::from_json(j)?))
    }
}

impl Scenario for C14 {
    fn to_json(&self) -> Json {
        Json::obj()
            .set("family", self.family.name())
            .set("items", Json::Arr(self.items.iter().map(wkind_to_json).collect()))
            .set("w_max_len_mode", self.w_max_len_mode as u32)
            .set("w_init_buf", self.w_init_buf)
            .set("w_use_ctx", self.w_use_ctx)
            .set("w_sink", lane_to_json(&self.w_sink))
            .set("w_fatal", self.w_fatal)
            .set("cut", self.cut)
            .set("r_max_len_mode", self.r_max_len_mode as u32)
            .set("r_init_buf", self.r_init_buf)
            .set("r_use_ctx", self.r_use_ctx)
            .set("r_src", lane_to_json(&self.r_src))
            .set("r_fatal", self.r_fatal)
            .set("w_knob_at", self.w_knob_at)
            .set("r_knob_at", self.r_knob_at)
            .set("w_rewrap_at", self.w_rewrap_at)
            .set("r_rewrap_at", self.r_rewrap_at)
            .set("touch", self.touch)
            .set("scribble", self.scribble)
            .set("r_exact", self.r_exact)
            .set("lane_repeat", self.lane_repeat)
    }
    fn from_json(j: &Json) -> Result<Self, String> {
        let u = |k: &str| j.get(k).and_then(|c| c.as_u64()).unwrap_or(0);
        let b = |k: &str| j.get(k).and_then(|c| c.as_bool()).unwrap_or(false);
        Ok(C14 {
            family: j.get("family").and_then(|f| f.as_str()).and_then(Ty::parse).ok_or("family")?,
            items: j.get("items").and_then(|v| v.as_arr()).ok_or("items")?.iter().map(wkind_from_json).collect::<Result<_, _>>()?,
            w_max_len_mode: u("w_max_len_mode") as u8,
            w_init_buf: u("w_init_buf") as u32,
            w_use_ctx: b("w_use_ctx"),
            w_sink: lane_from_json(j.get("w_sink"))?,
            w_fatal: b("w_fatal"),
            cut: j.get("cut").and_then(|c| c.as_u64()).map(|c| c as u32),
            r_max_len_mode: u("r_max_len_mode") as u8,
            r_init_buf: u("r_init_buf") as u32,
            r_use_ctx: b("r_use_ctx"),
            r_src: lane_from_json(j.get("r_src"))?,
            r_fatal: b("r_fatal"),
            w_knob_at: u("w_knob_at") as u32,
            r_knob_at: u("r_knob_at") as u32,
            w_rewrap_at: j.get("w_rewrap_at").and_then(|c| c.as_u64()).map(|c| c as u32),
            r_rewrap_at: j.get("r_rewrap_at").and_then(|c| c.as_u64()).map(|c| c as u32),
            touch: b("touch"),
            scribble: b("scribble"),
            r_exact: b("r_exact"),
            lane_repeat: j.get("lane_repeat").and_then(|c| c.as_u64()).unwrap_or(0) as u32,
        })
    }
    fn run(&self, obs: &mut Obs) -> Result<(), Violation> {
        let shared = Rc::new(RefCell::new(Obs::new()));
        let r = self.run_inner(shared.clone());
        *obs = shared.replace(Obs::new());
        r.map_err(|v| v.key(format!("family={}", self.family.name())))
    }
    fn shrink(&self) -> Vec<Self> {
        let mut out = Vec::new();
        shrink_vec(&self.items, |v| out.push(C14 { items: v, ..self.clone() }));
        shrink_vec(&self.w_sink, |v| out.push(C14 { w_sink: v, ..self.clone() }));
        shrink_vec(&self.r_src, |v| out.push(C14 { r_src: v, ..self.clone() }));
        for (i, st) in self.r_src.iter().enumerate() {
            if !matches!(st, Step::Xfer(u32::MAX)) {
                let mut l = self.r_src.clone();
                l[i] = Step::Xfer(u32::MAX);
                out.push(C14 { r_src: l, ..self.clone() });
            }
        }
        for (i, st) in self.w_sink.iter().enumerate() {
            if !matches!(st, Step::Xfer(u32::MAX)) {
                let mut l = self.w_sink.clone();
                l[i] = Step::Xfer(u32::MAX);
                out.push(C14 { w_sink: l, ..self.clone() });
            }
        }
        // per-item shrinking clones the whole scenario per candidate: only once the list is short
        for (i, it) in self.items.iter().enumerate().take(if self.items.len() <= 64 { usize::MAX } else { 0 }) {
            let mut push = |k: WKind| {
                let mut v = self.items.clone();
                v[i] = k;
                out.push(C14 { items: v, ..self.clone() });
            };
            match it {
                WKind::Val(v) => {
                    for sv in v.shrink() {
                        push(WKind::Val(sv));
                    }
                }
                WKind::Fail(p) if *p > 0 => push(WKind::Fail(0)),
                WKind::Raw { declared, body } => {
                    if !body.is_empty() {
                        push(WKind::Raw { declared: *declared, body: body[..body.len() / 2].to_vec() });
                        push(WKind::Raw { declared: (body.len() / 2) as u32, body: body[..body.len() / 2].to_vec() });
                    }
                    if *declared > HOSTILE_MIN {
                        push(WKind::Raw { declared: HOSTILE_MIN + 1, body: body.clone() });
                    }
                }
                _ => {}
            }
        }
        macro_rules! reset {
            ($f:ident, $zero:expr) => {
                if self.$f != $zero {
                    out.push(C14 { $f: $zero, ..self.clone() });
                }
            };
        }
        reset!(cut, None);
        reset!(w_max_len_mode, 0);
        reset!(r_max_len_mode, 0);
        reset!(w_init_buf, 0);
        reset!(r_init_buf, 0);
        reset!(w_use_ctx, false);
        reset!(r_use_ctx, false);
        reset!(w_fatal, false);
        reset!(r_fatal, false);
        reset!(w_knob_at, 0);
        reset!(r_knob_at, 0);
        reset!(w_rewrap_at, None);
        reset!(r_rewrap_at, None);
        reset!(touch, false);
        reset!(scribble, false);
        reset!(r_exact, false);
        reset!(lane_repeat, 0);
        if self.lane_repeat > 1 {
            out.push(C14 { lane_repeat: self.lane_repeat / 2, ..self.clone() });
            out.push(C14 { lane_repeat: self.lane_repeat - 1, ..self.clone() });
        }
        if self.family != Ty::Str && self.family != Ty::U64 {
            for t in [Ty::U64, Ty::Str] {
                let items: Vec<WKind> = self
                    .items
                    .iter()
                    .map(|k| match k {
                        WKind::Val(v) if v.ty == self.family => WKind::Val(ValSpec { ty: t, ..v.clone() }),
                        o => o.clone(),
                    })
                    .collect();
                out.push(C14 { family: t, items, ..self.clone() });
            }
        }
        out
    }
}

// ---------------------------------------------------------------------------------------

fn base(family: Ty, items: Vec<WKind>) -> C14 {
    C14 {
        family,
        items,
        w_max_len_mode: 0,
        w_init_buf: 0,
        w_use_ctx: false,
        w_sink: vec![],
        w_fatal: false,
        cut: None,
        r_max_len_mode: 0,
        r_init_buf: 0,
        r_use_ctx: false,
        r_src: vec![],
        r_fatal: false,
        w_knob_at: 0,
        r_knob_at: 0,
        w_rewrap_at: None,
        r_rewrap_at: None,
        touch: false,
        scribble: false,
        r_exact: false,
        lane_repeat: 0,
    }
}

fn vals(family: Ty, sizes: &[u32]) -> Vec<WKind> {
    sizes.iter().enumerate().map(|(i, s)| WKind::Val(ValSpec { ty: family, size: *s, seed: 500 + i as u64 })).collect()
}

fn stream_len(items: &[WKind]) -> usize {
    items
        .iter()
        .map(|k| match k {
            WKind::Val(v) => reference_encoding(v).map(|p| p.len() + 4).unwrap_or(0),
            WKind::Raw { body, .. } => body.len() + 4,
            WKind::Fail(_) => 0,
        })
        .sum()
}

/// All compositions of `n` into positive parts, as chunk lanes, via the (n-1)-bit mask `m`.
fn composition(n: usize, m: u64) -> Vec<Step> {
    let mut out = Vec::new();
    let mut run = 1u32;
    for i in 0..n.saturating_sub(1) {
        if (m >> i) & 1 == 1 {
            out.push(Step::Xfer(run));
            run = 1;
        } else {
            run += 1;
        }
    }
    if n > 0 {
        out.push(Step::Xfer(run));
    }
    out
}

/// Workload of the exhaustive composition sweep: 18 bytes (quick) / 21 bytes (thorough) of stream.
fn comp_items(tier: Tier) -> Vec<WKind> {
    if tier == Tier::Quick {
        vals(Ty::Str, &[0, 1, 2])
    } else {
        vals(Ty::Str, &[0, 1, 0, 0])
    }
}

pub struct P14;

impl Property for P14 {
    type S = C14;
    const ID: &'static str = "C14";
    const LEVEL: &'static str = "exploration";

    fn sweeps(tier: Tier) -> Vec<C14> {
        let mut out = Vec::new();
        let fams: &[Ty] = if tier == Tier::Quick { &[Ty::Str, Ty::Borrowed] } else { &[Ty::Str, Ty::Borrowed, Ty::Bytes, Ty::U64, Ty::Tree] };
        for &fam in fams {
            let items = vals(fam, &[0, 1, 24]);
            let len = stream_len(&items);
            // (a) every cut offset x granularity
            for cut in 0..=len {
                for g in [u32::MAX, 1, 3] {
                    let r_src = if g == u32::MAX { vec![] } else { vec![Step::Xfer(g); len + 2] };
                    out.push(C14 { cut: Some(cut as u32), r_src: r_src.clone(), ..base(fam, items.clone()) });
                    // the same cut seen through a source whose read_exact is all-or-nothing, with and without scribbling
                    out.push(C14 { cut: Some(cut as u32), r_src: r_src.clone(), r_exact: true, ..base(fam, items.clone()) });
                    out.push(C14 { cut: Some(cut as u32), r_src, r_exact: true, scribble: true, ..base(fam, items.clone()) });
                }
            }
            // (b) every uniform chunk size, reader and writer side
            for k in 1..=len {
                out.push(C14 { r_src: vec![Step::Xfer(k as u32); len / k + 2], ..base(fam, items.clone()) });
                out.push(C14 { w_sink: vec![Step::Xfer(k as u32); len / k + 2], ..base(fam, items.clone()) });
            }
            // (c) EINTR before every read call (1-byte delivery) and before every write call
            for i in 0..=len + 1 {
                let mut r_src = vec![Step::Xfer(1); i];
                r_src.push(Step::Err(ErrKind::Interrupted));
                r_src.extend(std::iter::repeat(Step::Xfer(1)).take(len + 1 - i.min(len + 1)));
                out.push(C14 { r_src, r_init_buf: 5, ..base(fam, items.clone()) });
                let mut w_sink = vec![Step::Xfer(1); i];
                w_sink.push(Step::Err(ErrKind::Interrupted));
                w_sink.push(Step::Err(ErrKind::Interrupted));
                out.push(C14 { w_sink, w_init_buf: 5, ..base(fam, items.clone()) });
            }
            // (d) a fatal error before every read call / write call
            for i in 0..=len {
                for kind in [ErrKind::WouldBlock, ErrKind::Other] {
                    let mut r_src = vec![Step::Xfer(1); i];
                    r_src.push(Step::Err(kind));
                    out.push(C14 { r_src, r_fatal: true, ..base(fam, items.clone()) });
                    let mut w_sink = vec![Step::Xfer(1); i];
                    w_sink.push(Step::Err(kind));
                    out.push(C14 { w_sink, w_fatal: true, ..base(fam, items.clone()) });
                }
                // a device that accepts zero bytes before byte i: write_all must report WriteZero, a prefix of the frame is out
                let mut w_sink = vec![Step::Xfer(1); i];
                w_sink.push(Step::Zero);
                out.push(C14 { w_sink, w_fatal: true, ..base(fam, items.clone()) });
            }
            // (e) max_len knobs around the frame size on both sides
            for wm in 0..=3u8 {
                for rm in 0..=3u8 {
                    for g in [u32::MAX, 1] {
                        out.push(C14 {
                            w_max_len_mode: wm,
                            r_max_len_mode: rm,
                            r_src: if g == 1 { vec![Step::Xfer(1); 120] } else { vec![] },
                            ..base(fam, vals(fam, &[5, 30, 31, 2]))
                        });
                    }
                }
            }
            // (f) poison frames at every position; zero-length frame; truncated CBOR inside a complete frame
            let good = vals(fam, &[3, 9]);
            let poison_ty = if fam == Ty::U64 { Ty::Str } else { Ty::U64 };
            let mut poisons: Vec<WKind> = vec![
                WKind::Val(ValSpec { ty: poison_ty, size: 4, seed: 77 }),
                WKind::Raw { declared: 0, body: vec![] },
                WKind::Raw { declared: 3, body: vec![0x78, 0x20, 0x61] }, // text string header announcing 32 bytes, 1 present
                WKind::Raw { declared: 5, body: vec![0xff, 0xff, 0xff, 0xff, 0xff] },
                WKind::Fail(0),
                WKind::Fail(9),
            ];
            if let Some(p) = reference_encoding(&ValSpec { ty: fam, size: 6, seed: 78 }) {
                let mut b = p.clone();
                b.extend_from_slice(&[1, 2, 3]); // trailing bytes after a valid item
                poisons.push(WKind::Raw { declared: b.len() as u32, body: b });
                if p.len() > 1 {
                    poisons.push(WKind::Raw { declared: (p.len() - 1) as u32, body: p[..p.len() - 1].to_vec() });
                }
            }
            for p in &poisons {
                for at in 0..=good.len() {
                    let mut items = good.clone();
                    items.insert(at, p.clone());
                    for g in [u32::MAX, 1, 2] {
                        let r_src = if g == u32::MAX { vec![] } else { vec![Step::Xfer(g); 80] };
                        out.push(C14 { r_src, r_init_buf: 33, ..base(fam, items.clone()) });
                    }
                }
            }
            // (g) hostile prefixes with k bytes behind them, under each reader max_len mode
            for declared in [HOSTILE_MIN + 1, 1 << 20, 16 << 20, 32 << 20] {
                for behind in [0usize, 1, 7] {
                    for rm in 0..=3u8 {
                        let mut items = good.clone();
                        items.push(WKind::Raw { declared, body: vec![0x61; behind] });
                        out.push(C14 { r_max_len_mode: rm, ..base(fam, items) });
                    }
                }
            }
        }
        // (h') complete frames within the limit whose payload LIES about its size (a definite array / map / string header
        // announcing millions of elements or bytes, a handful present), read by the owning families: a decode error, the frames
        // after it intact, and no allocation beyond what the bytes actually received justify
        for &fam in &[Ty::VecU32, Ty::String, Ty::Bytes, Ty::Tree, Ty::MapRec] {
            let good = vals(fam, &[3, 9]);
            let liars: [&[u8]; 6] = [
                &[0x9a, 0x01, 0x00, 0x00, 0x00, 0x01, 0x02],
                &[0x9b, 0x20, 0x00, 0x00, 0x00, 0x00, 0x00, 0x00, 0x00, 0x01],
                &[0xba, 0x01, 0x00, 0x00, 0x00, 0x01, 0x02],
                &[0x7a, 0x01, 0x00, 0x00, 0x00, 0x61],
                &[0x5a, 0x01, 0x00, 0x00, 0x00, 0x00],
                &[0x82, 0x9a, 0x00, 0xff, 0xff, 0xff, 0x01],
            ];
            for body in liars {
                for at in 0..=good.len() {
                    let mut items = good.clone();
                    items.insert(at, WKind::Raw { declared: body.len() as u32, body: body.to_vec() });
                    for (rm, g) in [(0u8, u32::MAX), (0, 1), (1, 3)] {
                        let r_src = if g == u32::MAX { vec![] } else { vec![Step::Xfer(g); 80] };
                        out.push(C14 { r_src, r_max_len_mode: rm, ..base(fam, items.clone()) });
                    }
                }
            }
        }
        // (i) the default limit itself: a payload of exactly 512 KiB passes the writer and the reader, one byte more is
        // refused by the writer (nothing reaches the sink, the next value is unaffected) and, hand-framed, by the reader
        let exact = WKind::Val(bytes_spec_with_encoding_len(DEFAULT_MAX_LEN));
        let over = WKind::Val(bytes_spec_with_encoding_len(DEFAULT_MAX_LEN + 1));
        let small = WKind::Val(ValSpec { ty: Ty::Bytes, size: 3, seed: 7 });
        for g in [u32::MAX, 65_536, 100_000] {
            let lane = if g == u32::MAX { vec![] } else { vec![Step::Xfer(g); 12] };
            out.push(C14 { r_src: lane.clone(), w_sink: lane.clone(), ..base(Ty::Bytes, vec![small.clone(), exact.clone(), small.clone()]) });
            out.push(C14 { w_sink: lane.clone(), ..base(Ty::Bytes, vec![small.clone(), over.clone(), small.clone()]) });
            out.push(C14 { r_src: lane.clone(), ..base(Ty::Bytes, vec![small.clone(), WKind::Raw { declared: DEFAULT_MAX_LEN as u32 + 1, body: vec![0x40; 64] }]) });
            // the same through with_buffer with buffers roomier than the limit: the room a caller hands in does not raise it
            for init in [700_000u32, 699_999] {
                out.push(C14 { w_sink: lane.clone(), w_init_buf: init, ..base(Ty::Bytes, vec![small.clone(), over.clone(), small.clone()]) });
                out.push(C14 { r_src: lane.clone(), r_init_buf: init, ..base(Ty::Bytes, vec![small.clone(), WKind::Raw { declared: DEFAULT_MAX_LEN as u32 + 1, body: vec![0x40; 64] }]) });
                out.push(C14 { r_src: lane.clone(), w_sink: lane.clone(), w_init_buf: init, r_init_buf: init, ..base(Ty::Bytes, vec![small.clone(), exact.clone(), small.clone()]) });
            }
        }
        // (j) a frame of more than 16 MiB: the only case in which the most significant byte of the length prefix is not zero
        let huge = WKind::Val(spec_with_encoding_len(Ty::Str, (16 << 20) + 11));
        for g in [u32::MAX, 5 << 20] {
            let lane = if g == u32::MAX { vec![] } else { vec![Step::Xfer(g); 8] };
            out.push(C14 { w_max_len_mode: 1, r_max_len_mode: 4, r_src: lane.clone(), w_sink: lane, ..base(Ty::Str, vec![WKind::Val(ValSpec { ty: Ty::Str, size: 3, seed: 7 }), huge.clone(), WKind::Val(ValSpec { ty: Ty::Str, size: 3, seed: 8 })]) });
        }
        // the 'no limit' setting: set_max_len(u32::MAX) on both sides
        out.push(C14 { w_max_len_mode: 9, r_max_len_mode: 9, ..base(Ty::Str, vals(Ty::Str, &[0, 5, 300])) });
        out.push(C14 { w_max_len_mode: 9, r_max_len_mode: 9, w_knob_at: 1, r_knob_at: 1, r_src: vec![Step::Xfer(1); 40], ..base(Ty::Str, vals(Ty::Str, &[0, 5, 300])) });
        // a long history in which the limit is lowered late: a large frame early, a medium one later, then set_max_len(16)
        // before frame 400 of 600 -- whatever housekeeping the reader does afterwards must respect the limit in force then
        {
            let items: Vec<WKind> = (0..600u64)
                .map(|i| WKind::Val(ValSpec { ty: Ty::Str, size: match i { 10 => 5000, 300 => 300, _ => (i % 3) as u32 }, seed: i }))
                .collect();
            out.push(C14 { r_max_len_mode: 3, r_knob_at: 400, ..base(Ty::Str, items.clone()) });
            out.push(C14 { r_max_len_mode: 3, r_knob_at: 400, r_src: vec![Step::Xfer(3), Step::Err(ErrKind::Interrupted)], lane_repeat: 2000, ..base(Ty::Str, items) });
        }
        // (k) more than 65536 frames through one writer and one reader (16-bit counters)
        out.push(base(Ty::U64, (0..65_700u64).map(|i| WKind::Val(ValSpec { ty: Ty::U64, size: 0, seed: i })).collect()));
        out
    }

    // (h) ALL compositions of a short stream into read sizes, enumerated lazily
    fn enumerated(tier: Tier) -> u64 {
        1u64 << (stream_len(&comp_items(tier)) - 1)
    }

    fn enumerate(tier: Tier, m: u64) -> C14 {
        let items = comp_items(tier);
        let len = stream_len(&items);
        C14 { r_src: composition(len, m), ..base(Ty::Str, items) }
    }

    fn random_runs(tier: Tier) -> u64 {
        match tier {
            Tier::Quick => 1_500_000,
            Tier::Thorough => 40_000_000,
        }
    }

    fn generate(r: &mut Rng, tier: Tier) -> C14 {
        let shape = gen_shape(r, tier == Tier::Thorough);
        let big = shape.big;
        let family = if big { *r.pick(BYTEY_TYS) } else { *r.pick(IO_TYS) };
        let nitems = shape.nframes;
        let en_poison = r.chance(1, 3);
        let en_hostile = r.chance(1, 6);
        let en_fail = r.chance(1, 5);
        let mut items = Vec::new();
        for _ in 0..nitems {
            let size = shape.size(r, items.len());
            if big && items.is_empty() {
                items.push(WKind::Val(ValSpec { ty: family, size, seed: r.next_u64() }));
                continue;
            }
            if en_fail && r.chance(1, 6) {
                items.push(WKind::Fail(if r.chance(1, 2) { 0 } else { r.range(1, 200) as u32 }));
            } else if en_poison && r.chance(1, 4) {
                match r.below(4) {
                    0 => items.push(WKind::Val(ValSpec { ty: if r.chance(1, 6) { Ty::Empty } else if r.chance(1, 3) { Ty::Ticket } else { *r.pick(IO_TYS) }, size, seed: r.next_u64() })),
                    1 => items.push(WKind::Raw { declared: 0, body: vec![] }),
                    2 => {
                        // complete frame, truncated or extended CBOR inside
                        let p = reference_encoding(&ValSpec { ty: family, size: size.min(3000), seed: r.next_u64() }).unwrap_or_default();
                        let body = if r.chance(1, 2) && !p.is_empty() {
                            p[..r.below(p.len() as u64) as usize].to_vec()
                        } else {
                            let mut b = p;
                            b.extend((0..r.range(1, 5)).map(|_| r.next_u64() as u8));
                            b
                        };
                        items.push(WKind::Raw { declared: body.len() as u32, body });
                    }
                    _ => {
                        let k = r.below(40) as usize;
                        let mut body = vec![0u8; k];
                        r.fill(&mut body);
                        items.push(WKind::Raw { declared: k as u32, body });
                    }
                }
            } else {
                items.push(WKind::Val(ValSpec { ty: family, size, seed: r.next_u64() }));
            }
        }
        if r.chance(1, 3) {
            // byte-identical consecutive frames
            for i in 1..items.len() {
                if r.chance(1, 4) {
                    if let WKind::Val(v) = items[i - 1].clone() {
                        items[i] = WKind::Val(v);
                    }
                }
            }
        }
        if en_hostile {
            let declared = match r.below(4) {
                0 => HOSTILE_MIN + 1 + r.below(1000) as u32,
                1 => 1 << 20,
                2 => r.range(1 << 20, 32 << 20) as u32,
                _ => 32 << 20,
            };
            let behind = r.below(12) as usize;
            let at = if r.chance(2, 3) { items.len() } else { r.below(items.len() as u64 + 1) as usize };
            items.insert(at, WKind::Raw { declared, body: vec![0x42; behind] });
        }
        let len = stream_len(&items);
        let largest = items.iter().map(|i| match i { WKind::Val(v) => reference_encoding(v).map(|p| p.len() + 4).unwrap_or(0), _ => 0 }).max().unwrap_or(0);
        let deep = tier == Tier::Thorough && r.chance(1, 4);
        let lane = |r: &mut Rng, en_short: bool, en_eintr: bool, fatal: bool| -> Vec<Step> {
            let density = *r.pick(&[1u64, 1, 3, 8]);
            let gran = *r.pick(&[1u32, 2, 4, 4, 16, 64, 1024]);
            let n = r.usize_in(0, if deep { 160 } else { 64 });
            let mut l: Vec<Step> = (0..n)
                .map(|_| {
                    if en_eintr && r.below(16) < density {
                        Step::Err(ErrKind::Interrupted)
                    } else if en_short {
                        Step::Xfer(shape.xfer(r, gran, largest))
                    } else {
                        Step::Xfer(u32::MAX)
                    }
                })
                .collect();
            if fatal {
                let at = r.below(l.len() as u64 + 1) as usize;
                l.insert(at, Step::Err(*r.pick(&[ErrKind::WouldBlock, ErrKind::TimedOut, ErrKind::Other])));
            }
            l
        };
        let r_fatal = r.chance(1, 12);
        let w_fatal = r.chance(1, 20);
        let (rs, re) = (r.chance(3, 4), r.chance(1, 2));
        let r_src = lane(r, rs, re, r_fatal);
        let (ws, we) = (r.chance(1, 2), r.chance(1, 3));
        let mut w_sink = lane(r, ws, we, w_fatal);
        if w_fatal && r.chance(1, 3) {
            // the fatal event is "accepts zero bytes" instead of an error kind
            if let Some(p) = w_sink.iter().position(|s| matches!(s, Step::Err(k) if *k != ErrKind::Interrupted)) {
                w_sink[p] = Step::Zero;
            }
        }
        let cut = if r.chance(1, 4) && len > 0 { Some(r.below(len as u64 + 1) as u32) } else { None };
        let roomy_w = r.chance(1, 2);
        // a big frame moved in uniform small pieces from its first to its last byte, on both sides
        let mut uniform_repeat = None;
        let (mut r_src, mut w_sink) = (r_src, w_sink);
        if big && !r_fatal && !w_fatal && r.chance(1, if tier == Tier::Thorough { 64 } else { 4 }) {
            r_src = vec![Step::Xfer(*r.pick(&[1u32, 1, 2, 7, 1448, 4096]))];
            w_sink = vec![Step::Xfer(*r.pick(&[1u32, 3, 1448, 4096, 65_536]))];
            uniform_repeat = Some(1u32 << 20);
        }
        C14 {
            family,
            items,
            w_max_len_mode: if r.chance(1, 4) { 1 + r.below(3) as u8 } else if r.chance(1, 12) { 9 } else { 0 },
            w_init_buf: if let (Some(n), true) = (shape.roomy_init, roomy_w) { n } else if r.chance(1, 3) { r.range(1, 300) as u32 } else { 0 },
            w_use_ctx: r.chance(1, 8),
            w_sink,
            w_fatal,
            cut,
            r_max_len_mode: if r.chance(1, 3) { 1 + r.below(3) as u8 } else if r.chance(1, 12) { 9 } else { 0 },
            r_init_buf: if let (Some(n), false) = (shape.roomy_init, roomy_w) { n } else if r.chance(1, 3) { r.range(1, 300) as u32 } else { 0 },
            r_use_ctx: r.chance(1, 8),
            r_src,
            r_fatal,
            w_knob_at: if r.chance(1, 4) { r.below(nitems as u64) as u32 } else { 0 },
            r_knob_at: if r.chance(1, 4) { r.below(nitems as u64) as u32 } else { 0 },
            w_rewrap_at: if r.chance(1, 6) { Some(r.below(nitems as u64) as u32) } else { None },
            r_rewrap_at: if r.chance(1, 6) { Some(r.below(nitems as u64 + 1) as u32) } else { None },
            touch: r.chance(1, 3),
            scribble: r.chance(1, 3),
            r_exact: r.chance(1, 3),
            lane_repeat: uniform_repeat.unwrap_or_else(|| gen_repeat(r, shape.history || shape.marathon)),
        }
    }

    fn probes() -> Vec<usize> {
        vec![pb::eof_inside_prefix, pb::eof_inside_payload, pb::eintr_mid_prefix, pb::eintr_mid_payload, pb::eintr_before_first_byte, pb::prefix_split_across_reads, pb::payload_split_across_reads, pb::decode_error_then_good_frame, pb::frame_len_eq_max_len, pb::frame_len_eq_max_len_plus_1, pb::zero_length_frame, pb::short_write_mid_prefix, pb::short_write_mid_payload, pb::clean_end_repeated, pb::large_frame_ge_64k, pb::failed_encode_partial_bytes, pb::buffer_shrinks_between_frames, pb::buffer_grows_between_frames, pb::rewrap_at_boundary, pb::max_len_changed_mid_run]
    }

    fn rule() -> &'static str {
        "sweeps on fixed 2-4 frame workloads per payload family: every cut offset x {whole,1,3}-byte delivery; every uniform chunk size on \
         the read and on the write side; EINTR before every read call and before every write call; a fatal error before every call; all \
         16 combinations of writer/reader max_len modes (default, == largest frame, largest-1, tiny); 8 kinds of poison frame at every \
         position x 3 granularities; hostile length prefixes (600 KiB..32 MiB) with 0/1/7 bytes behind them under every max_len mode; ALL \
         2^(n-1) compositions of a short stream into read sizes (quick: n<=15, thorough: n<=20). Then seeded swarm runs mixing all of \
         these. Non-trivial = a short transfer, EINTR, error or end-of-stream landed strictly inside a frame, or a sink refused; distinct = \
         distinct hash of the executed event trace."
    }

    fn assumptions() -> Vec<&'static str> {
        vec![
            "\"never allocates more than its configured maximum for a frame\" is checked literally in two ways: the capacity of the reader's frame buffer (seen through into_parts at the end of a run and at every re-wrap) never exceeds max(largest max_len in effect so far, capacity of the buffer handed to with_buffer), and no single allocation request inside read() exceeds that bound plus a decode allowance of 64 x payload length + 4 KiB for the value being decoded",
            "after the first InvalidLen, UnexpectedEof or fatal error the reader phase ends (the blocking reader is desynchronised by design; the property is silent about afterwards)",
            "only Interrupted is injected as a retryable error into blocking calls; other kinds are injected as fatal errors in a separate class",
            "payload codec is the library's own (reference = to_vec / direct decode of the payload slice)",
            "hostile declared lengths are capped at 32 MiB so that a mutated tree that does allocate them stays cheap",
        ]
    }

    fn real_components() -> Vec<&'static str> {
        vec![
            "minicbor_io::Writer (write, write_with, flush, with_buffer, set_max_len, into_parts)",
            "minicbor_io::Reader (read, read_with, with_buffer, set_max_len)",
            "std::io::Write::write_all / Read::read_exact default loops",
            "minicbor Encoder/Decoder + Encode/Decode impls of the payload families (incl. derive-generated, borrowed)",
        ]
    }

    fn stub_components() -> Vec<&'static str> {
        vec!["SimSink (scripted io::Write: accept k / Interrupted / fatal error)", "SimSource (scripted io::Read: deliver k / Interrupted / fatal error / EOF at the cut)", "sequential stream parser + frame log (reference model)", "counting global allocator (measures, never fails)"]
    }
}
