//! Instrumented global allocator: per-thread counters armed only around calls into the code
//! under test.  Never fails an allocation (allocation failure aborts in Rust and no property
//! speaks about it); it only measures.

use std::alloc::{GlobalAlloc, Layout, System};
use std::cell::Cell;

pub struct Counting;

thread_local! {
    static ARMED: Cell<bool> = const { Cell::new(false) };
    static MAX_REQ: Cell<usize> = const { Cell::new(0) };
    static TOTAL: Cell<usize> = const { Cell::new(0) };
    static COUNT: Cell<usize> = const { Cell::new(0) };
}

/// A request of this size or more made by the code under test cannot be served by this machine: the process would abort in
/// `handle_alloc_error`. The engine installs a per-thread hook that reports the scenario being run as a violation (with its
/// replay file) and exits with status 1 instead (an allocator must not unwind, so the report cannot be an ordinary panic).
pub const ABSURD: usize = 1 << 36;

pub type AbsurdHook = (fn(*const (), usize), *const ());

thread_local! {
    static ON_ABSURD: Cell<Option<AbsurdHook>> = const { Cell::new(None) };
}

pub fn set_absurd_hook(h: Option<AbsurdHook>) {
    ON_ABSURD.with(|c| c.set(h));
}

#[inline]
fn note(size: usize) {
    if size >= ABSURD {
        // armed or not: the harness also calls the codec directly (expected results), and never asks for this much itself
        let was = ARMED.try_with(|a| a.replace(false)).unwrap_or(false);
        if let Ok(Some((f, p))) = ON_ABSURD.try_with(|c| c.get()) {
            f(p, size);
        }
        let _ = ARMED.try_with(|a| a.set(was));
    }
    // try_with: the allocator may be called during thread teardown
    let _ = ARMED.try_with(|a| {
        if a.get() {
            let _ = MAX_REQ.try_with(|m| {
                if size > m.get() {
                    m.set(size)
                }
            });
            let _ = TOTAL.try_with(|t| t.set(t.get().wrapping_add(size)));
            let _ = COUNT.try_with(|c| c.set(c.get() + 1));
        }
    });
}

unsafe impl GlobalAlloc for Counting {
    unsafe fn alloc(&self, l: Layout) -> *mut u8 {
        note(l.size());
        System.alloc(l)
    }
    unsafe fn alloc_zeroed(&self, l: Layout) -> *mut u8 {
        note(l.size());
        System.alloc_zeroed(l)
    }
    unsafe fn dealloc(&self, p: *mut u8, l: Layout) {
        System.dealloc(p, l)
    }
    unsafe fn realloc(&self, p: *mut u8, l: Layout, new: usize) -> *mut u8 {
        note(new);
        System.realloc(p, l, new)
    }
}

#[derive(Clone, Copy, Debug, Default)]
pub struct AllocStats {
    pub max_request: usize,
    pub total: usize,
    pub count: usize,
}

/// Reset the counters and start measuring on this thread.
pub fn arm() {
    MAX_REQ.with(|m| m.set(0));
    TOTAL.with(|t| t.set(0));
    COUNT.with(|c| c.set(0));
    ARMED.with(|a| a.set(true));
}

/// Stop measuring; returns what was seen since `arm`.
pub fn disarm() -> AllocStats {
    ARMED.with(|a| a.set(false));
    AllocStats { max_request: MAX_REQ.with(|m| m.get()), total: TOTAL.with(|t| t.get()), count: COUNT.with(|c| c.get()) }
}

/// Guard that suspends measuring while the *simulator's own* code runs inside a library call (stub internals: error
/// values, scratch buffers, event logs); measuring resumes when it is dropped.
pub struct Paused(bool);

pub fn pause() -> Paused {
    let was = ARMED.with(|a| a.replace(false));
    Paused(was)
}

impl Drop for Paused {
    fn drop(&mut self) {
        if self.0 {
            let _ = ARMED.try_with(|a| a.set(true));
        }
    }
}

