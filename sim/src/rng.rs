//! The only source of randomness in the simulator: splitmix64 to derive per-run seeds,
//! xoshiro256** inside a run.  No clock, no `RandomState`, no `rand` crate.

pub const PHI: u64 = 0x9E37_79B9_7F4A_7C15;

pub fn splitmix64(x: u64) -> u64 {
    let mut z = x.wrapping_add(PHI);
    z = (z ^ (z >> 30)).wrapping_mul(0xBF58_476D_1CE4_E5B9);
    z = (z ^ (z >> 27)).wrapping_mul(0x94D0_49BB_1331_11EB);
    z ^ (z >> 31)
}

/// Seed of run `index` of property `tag` under `VERIF_SEED = seed`.
pub fn run_seed(seed: u64, tag: u64, index: u64) -> u64 {
    splitmix64(seed ^ splitmix64(tag) ^ index.wrapping_mul(PHI))
}

#[derive(Clone, Debug)]
pub struct Rng {
    s: [u64; 4],
}

impl Rng {
    pub fn new(seed: u64) -> Self {
        let mut x = seed;
        let mut s = [0u64; 4];
        for w in s.iter_mut() {
            x = x.wrapping_add(PHI);
            *w = splitmix64(x);
        }
        if s == [0; 4] {
            s[0] = 1;
        }
        Rng { s }
    }

    pub fn next_u64(&mut self) -> u64 {
        let r = self.s[1].wrapping_mul(5).rotate_left(7).wrapping_mul(9);
        let t = self.s[1] << 17;
        self.s[2] ^= self.s[0];
        self.s[3] ^= self.s[1];
        self.s[1] ^= self.s[2];
        self.s[0] ^= self.s[3];
        self.s[2] ^= t;
        self.s[3] = self.s[3].rotate_left(45);
        r
    }

    /// Uniform in `0 .. n` (n > 0).
    pub fn below(&mut self, n: u64) -> u64 {
        debug_assert!(n > 0);
        // multiply-shift; bias is irrelevant here
        ((self.next_u64() as u128 * n as u128) >> 64) as u64
    }

    /// Uniform in `lo ..= hi`.
    pub fn range(&mut self, lo: u64, hi: u64) -> u64 {
        debug_assert!(lo <= hi);
        lo + self.below(hi - lo + 1)
    }

    pub fn usize_in(&mut self, lo: usize, hi: usize) -> usize {
        self.range(lo as u64, hi as u64) as usize
    }

    /// True with probability num/den.
    pub fn chance(&mut self, num: u64, den: u64) -> bool {
        self.below(den) < num
    }

    pub fn pick<'a, T>(&mut self, xs: &'a [T]) -> &'a T {
        &xs[self.below(xs.len() as u64) as usize]
    }

    pub fn fill(&mut self, buf: &mut [u8]) {
        for chunk in buf.chunks_mut(8) {
            let r = self.next_u64().to_le_bytes();
            chunk.copy_from_slice(&r[..chunk.len()]);
        }
    }
}

/// FNV-1a style 64-bit hasher used for trace hashes (deterministic, no RandomState).
#[derive(Clone, Copy, Debug)]
pub struct Fnv(pub u64);

impl Default for Fnv {
    fn default() -> Self {
        Fnv(0xcbf2_9ce4_8422_2325)
    }
}

impl Fnv {
    pub fn new() -> Self {
        Self::default()
    }
    pub fn byte(&mut self, b: u8) {
        self.0 ^= b as u64;
        self.0 = self.0.wrapping_mul(0x0000_0100_0000_01B3);
    }
    pub fn bytes(&mut self, bs: &[u8]) {
        for b in bs {
            self.byte(*b)
        }
    }
    pub fn u64(&mut self, x: u64) {
        self.bytes(&x.to_le_bytes())
    }
    pub fn str(&mut self, s: &str) {
        self.bytes(s.as_bytes());
        self.byte(0xff)
    }
    pub fn finish(&self) -> u64 {
        splitmix64(self.0)
    }
}
