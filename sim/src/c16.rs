//! C16 — `AsyncWriter`: whole frames, in order, under short writes and cancel + `sync`.
//!
//! World: the caller writes a sequence of items through `AsyncWriter<SimAsyncSink>`.  The sink
//! lane scripts each `poll_write` (accept k / Pending / transient error / accept 0); the caller
//! lane decides, each time a `write` or `sync` future returns `Pending`, whether to keep polling
//! or to drop it.  The caller obeys exactly the protocol the property licenses: after dropping a
//! pending `write`, or after `write`/`sync` returned an I/O error, it drives `sync()` (itself
//! droppable and re-issuable) to `Ok(())` before the next `write`.

use crate::c15::{clip, shrink_vec};
use crate::engine::{fail, fk, pb, Obs, Property, Scenario, Tier, Violation};
use crate::json::Json;
use crate::rng::Rng;
use crate::stubs::*;
use crate::values::*;
use minicbor::Encode;
use minicbor_io::{AsyncWriter, Error};
use std::cell::RefCell;
use std::fmt::Debug;
use std::future::Future;
use std::pin::Pin;
use std::rc::Rc;
use std::task::{Context, Poll};

#[derive(Clone, Debug, PartialEq)]
pub enum ItemKind {
    Val(ValSpec),
    /// value whose `Encode` impl writes `partial` bytes and then fails
    Fail(u32),
}

#[derive(Clone, Debug, PartialEq)]
pub struct Item {
    pub kind: ItemKind,
    /// call `sync()` on the (idle) writer before this write
    pub sync_before: bool,
    /// call `flush()` after this write completed
    pub flush_after: bool,
}

impl Item {
    fn to_json(&self) -> Json {
        let j = match &self.kind {
            ItemKind::Val(v) => v.to_json(),
            ItemKind::Fail(p) => Json::obj().set("fail_encode_after", *p),
        };
        j.set("sync_before", self.sync_before).set("flush_after", self.flush_after)
    }
    fn from_json(j: &Json) -> Result<Item, String> {
        let kind = if let Some(p) = j.get("fail_encode_after") { ItemKind::Fail(p.as_u64().ok_or("fail")? as u32) } else { ItemKind::Val(ValSpec::from_json(j)?) };
        Ok(Item {
            kind,
            sync_before: j.get("sync_before").and_then(|b| b.as_bool()).unwrap_or(false),
            flush_after: j.get("flush_after").and_then(|b| b.as_bool()).unwrap_or(false),
        })
    }
}

#[derive(Clone, Debug)]
pub struct C16 {
    pub items: Vec<Item>,
    /// 0 default (512 KiB); 1 == largest payload; 2 == largest payload - 1; 3 == 8 bytes
    pub max_len_mode: u8,
    pub init_buf: u32,
    pub use_ctx: bool,
    /// index of the item before which set_max_len is applied (items before it see the default 512 KiB)
    pub knob_at: u32,
    /// before this item, on the idle writer: into_parts() + with_buffer() round trip
    pub rewrap_at: Option<u32>,
    /// after the k-th cancelled write (before the resuming sync) lower max_len to the largest payload still to come
    /// (only when max_len_mode == 0): the frame in flight was already admitted
    pub knob_mid: Option<u32>,
    /// call the writer()/writer_mut() accessors (without writing) whenever no future is in flight
    pub touch: bool,
    /// once the caller lane is exhausted, drop on every further Pending (then sync) instead of polling on
    pub late_cancel: bool,
    /// replay the sink lane this many more times before the benign default takes over
    pub sink_repeat: u32,
    /// call flush() between a cancelled write and the resuming sync()
    pub flush_mid: bool,
    pub sink: Vec<Step>,
    /// outcomes of the sink's poll_flush, whoever calls it (Pending / Err(kind) / Ok)
    pub flush_lane: Vec<Step>,
    pub caller: Vec<Decide>,
}

#[derive(Debug)]
enum WRes {
    Ok(usize),
    Io(std::io::ErrorKind),
    Encode(String),
    InvalidLen,
    Other(String),
}

fn wclass(r: Result<usize, Error>) -> WRes {
    match r {
        Ok(n) => WRes::Ok(n),
        Err(Error::Io(e)) => WRes::Io(e.kind()),
        Err(Error::Encode(e)) => WRes::Encode(e.to_string()),
        Err(Error::InvalidLen) => WRes::InvalidLen,
        Err(e) => WRes::Other(e.to_string()),
    }
}

/// Shared state of one run (everything the oracle needs between steps).
struct World {
    core: Rc<RefCell<SinkCore>>,
    obs: Rc<RefCell<Obs>>,
    caller: Caller,
    /// bytes of all committed frames
    committed: Vec<u8>,
    /// frame currently allowed to be partially in the sink
    inflight: Option<Vec<u8>>,
    /// how much of `inflight` the sink held at the previous check
    inflight_seen: usize,
    polls: u64,
    budget: u64,
    ret_err: [u64; NK],
    ret_zero: u64,
    cw: std::sync::Arc<CountWaker>,
}

impl World {
    /// `s_prefix_invariant`: sink == committed ++ prefix(inflight), prefix never shrinks.
    fn check_sink(&mut self, at: &str) -> Result<(), Violation> {
        let core = self.core.borrow();
        let d = &core.data;
        let c = self.committed.len();
        if d.len() < c || d[..c] != self.committed[..] {
            let at_off = d.iter().zip(self.committed.iter()).position(|(a, b)| a != b).unwrap_or(d.len().min(c));
            fail!("s_prefix_invariant", "{at}: sink ({} bytes) no longer starts with the {} committed bytes (first difference at offset {at_off})", d.len(), c);
        }
        let rest = &d[c..];
        match &self.inflight {
            None => {
                if !rest.is_empty() {
                    fail!("s_prefix_invariant", "{at}: {} extra bytes in the sink with no frame in flight: {}", rest.len(), crate::json::hex(&rest[..rest.len().min(24)]));
                }
            }
            Some(f) => {
                if rest.len() > f.len() || rest != &f[..rest.len()] {
                    let k = rest.iter().zip(f.iter()).position(|(a, b)| a != b).unwrap_or(rest.len().min(f.len()));
                    fail!(
                        "s_prefix_invariant",
                        "{at}: sink tail ({} bytes) is not a prefix of the in-flight frame ({} bytes); first difference at frame offset {k}: sink {} vs frame {}",
                        rest.len(),
                        f.len(),
                        crate::json::hex(&rest[k..rest.len().min(k + 12)]),
                        crate::json::hex(&f[k.min(f.len())..f.len().min(k + 12)])
                    );
                }
                if rest.len() < self.inflight_seen {
                    fail!("s_prefix_invariant", "{at}: sink shrank");
                }
                self.inflight_seen = rest.len();
            }
        }
        Ok(())
    }

    fn commit(&mut self, at: &str) -> Result<(), Violation> {
        if let Some(f) = self.inflight.take() {
            let have = self.core.borrow().data.len() - self.committed.len();
            if have != f.len() {
                self.inflight = Some(f.clone());
                fail!("s_commit", "{at}: reported complete but only {have} of {} frame bytes are in the sink", f.len());
            }
            self.committed.extend_from_slice(&f);
            self.inflight_seen = 0;
        }
        self.check_sink(at)
    }

    fn tick(&mut self) -> Result<(), Violation> {
        self.polls += 1;
        if self.polls > self.budget || self.core.borrow().cap_hit {
            fail!("progress", "more than {} polls / sink calls without finishing", self.budget);
        }
        self.obs.borrow_mut().event(ev::POLL, 0);
        Ok(())
    }

    fn wakes(&self) -> usize {
        self.cw.wakes.load(std::sync::atomic::Ordering::Relaxed)
    }

    fn lost_wakeup(&self, before: usize, what: &str) -> Result<(), Violation> {
        if self.wakes() == before {
            fail!("progress", "{what} returned Pending without any wake-up having been arranged during that poll: a real executor would never poll it again");
        }
        Ok(())
    }

    fn note_io_err(&mut self, k: std::io::ErrorKind, at: &str) -> Result<(), Violation> {
        let core = self.core.borrow();
        if k == std::io::ErrorKind::WriteZero {
            self.ret_zero += 1;
            if self.ret_zero > core.zero_served {
                fail!("s_write_zero", "{at}: WriteZero reported {} times but the sink accepted zero bytes of a non-empty offer {} times (empty offers: {})", self.ret_zero, core.zero_served, core.empty_offers);
            }
            return Ok(());
        }
        match ErrKind::from_io(k) {
            Some(e) => {
                self.ret_err[e.idx()] += 1;
                if self.ret_err[e.idx()] > core.served_err[e.idx()] {
                    fail!("s_transient_once", "{at}: {k:?} reported {} times, sink produced it {} times", self.ret_err[e.idx()], core.served_err[e.idx()]);
                }
                Ok(())
            }
            None => fail!("s_transient_once", "{at}: i/o error kind {k:?} that the sink never produced"),
        }
    }
}

struct WriteVisitor<'w, 'a> {
    w: &'w mut World,
    writer: &'a mut AsyncWriter<SimAsyncSink>,
    cx_waker: &'a std::task::Waker,
    use_ctx: bool,
    /// expected payload, None when the value must be rejected (oversize)
    expect_ok: bool,
    payload_len: usize,
    idx: usize,
}

/// Outcome of driving one `write` future.
enum Drive {
    Done(WRes),
    Cancelled,
}

impl<'w, 'a> EncVisitor for WriteVisitor<'w, 'a> {
    type Out = Result<Drive, Violation>;
    fn visit<T: Encode<()> + Debug>(self, v: &T) -> Self::Out {
        let WriteVisitor { w, writer, cx_waker, use_ctx, .. } = self;
        let mut cx = Context::from_waker(cx_waker);
        let mut unit = ();
        let mut fut: Pin<Box<dyn Future<Output = WRes> + '_>> = if use_ctx {
            let u = &mut unit;
            Box::pin(async move { wclass(writer.write_with(v, u).await) })
        } else {
            Box::pin(async move { wclass(writer.write(v).await) })
        };
        let at = format!("write #{}", self.idx);
        let mut first = true;
        loop {
            w.tick()?;
            let wakes_before = w.wakes();
            let p = fut.as_mut().poll(&mut cx);
            if first {
                first = false;
            }
            w.check_sink(&at)?;
            match p {
                Poll::Ready(r) => return Ok(Drive::Done(r)),
                Poll::Pending => {
                    w.lost_wakeup(wakes_before, "write")?;
                    if w.caller.next() == Decide::Cancel {
                        let ph = w.core.borrow().phase();
                        let mut o = w.obs.borrow_mut();
                        o.event(ev::CANCEL, ph.code() as u64);
                        o.fault(fk::cancel_write);
                        o.edge(32 + ph.code(), ev::CANCEL as u32);
                        o.probe(pb::pipe_writer_cancel);
                        match ph {
                            Phase::Prefix(_) | Phase::Boundary => o.probe(pb::resume_with_offset_lt_4),
                            _ => o.probe(pb::resume_with_offset_ge_4),
                        }
                        o.nontrivial = true;
                        let _ = (self.expect_ok, self.payload_len);
                        return Ok(Drive::Cancelled);
                    }
                }
            }
        }
    }
}

/// Drive `sync()` until it returns `Ok(())`; the sync future itself may be cancelled.
fn sync_to_completion(w: &mut World, writer: &mut AsyncWriter<SimAsyncSink>, waker: &std::task::Waker, at: &str) -> Result<(), Violation> {
    let mut cx = Context::from_waker(waker);
    let mut cancels = 0;
    loop {
        w.obs.borrow_mut().event(ev::ISSUE, 2);
        let r: Option<Result<(), Error>> = {
            let mut fut = Box::pin(writer.sync());
            loop {
                w.tick()?;
                let wakes_before = w.wakes();
                let p = fut.as_mut().poll(&mut cx);
                w.check_sink(at)?;
                match p {
                    Poll::Ready(r) => break Some(r),
                    Poll::Pending => {
                        w.lost_wakeup(wakes_before, "sync")?;
                        if w.caller.next() == Decide::Cancel {
                            break None;
                        }
                    }
                }
            }
        };
        match r {
            None => {
                let ph = w.core.borrow().phase();
                let mut o = w.obs.borrow_mut();
                o.event(ev::CANCEL, 100 + ph.code() as u64);
                o.fault(fk::cancel_sync);
                o.probe(pb::cancel_of_sync);
                o.edge(48 + ph.code(), ev::CANCEL as u32);
                o.nontrivial = true;
                cancels += 1;
                if cancels == 2 {
                    o.probe(pb::double_cancel_same_frame)
                }
            }
            Some(Ok(())) => {
                return w.commit(at);
            }
            Some(Err(Error::Io(e))) => {
                w.note_io_err(e.kind(), at)?;
                w.obs.borrow_mut().probe(pb::err_then_sync_resume);
            }
            Some(Err(e)) => fail!("s_commit", "{at}: sync returned a non-I/O error: {e}"),
        }
    }
}

/// `sync()` on an idle writer: `Ok(())`, zero sink calls, sink unchanged.
fn idle_sync(w: &mut World, writer: &mut AsyncWriter<SimAsyncSink>, waker: &std::task::Waker, at: &str, after_reject: bool) -> Result<(), Violation> {
    let mut cx = Context::from_waker(waker);
    let calls_before = w.core.borrow().nonempty_offers;
    w.obs.borrow_mut().event(ev::ISSUE, 3);
    w.obs.borrow_mut().probe(if after_reject { pb::reject_then_idle_sync } else { pb::idle_sync });
    let mut fut = Box::pin(writer.sync());
    w.tick()?;
    let p = fut.as_mut().poll(&mut cx);
    drop(fut);
    let clause = if after_reject { "s_reject_silent" } else { "s_idle_sync_silent" };
    let calls = w.core.borrow().nonempty_offers - calls_before;
    if calls != 0 {
        fail!(clause, "{at}: sync on an idle writer offered bytes to the sink {calls} time(s)");
    }
    match p {
        Poll::Ready(Ok(())) => {}
        Poll::Ready(Err(e)) => fail!(clause, "{at}: sync on an idle writer returned {e}"),
        Poll::Pending => fail!(clause, "{at}: sync on an idle writer returned Pending"),
    }
    w.check_sink(at).map_err(|v| Violation::new(clause, v.detail))
}

impl C16 {
    fn run_inner(&self, obs: Rc<RefCell<Obs>>) -> Result<(), Violation> {
        // ---- model
        let payloads: Vec<Option<Vec<u8>>> = self
            .items
            .iter()
            .map(|it| match &it.kind {
                ItemKind::Val(v) => reference_encoding(v),
                ItemKind::Fail(_) => None,
            })
            .collect();
        let max_payload = payloads.iter().flatten().map(|p| p.len()).max().unwrap_or(0);
        let knob_len: usize = match self.max_len_mode {
            1 => max_payload,
            2 => max_payload.saturating_sub(1),
            3 => 8,
            9 => u32::MAX as usize,
            _ => 512 * 1024,
        };
        let knob_at = if self.max_len_mode == 0 { 0 } else { self.knob_at as usize };
        let max_len_for = |idx: usize| if idx >= knob_at { knob_len } else { 512 * 1024 };
        let mut layout = Layout::default();
        let mut off = 0;
        for (i, p) in payloads.iter().enumerate() {
            let Some(p) = p else { continue };
            if p.len() <= max_len_for(i) {
                layout.push(off, p.len());
                off += 4 + p.len();
            }
        }
        let n = self.items.len() as u64;
        // implementation-agnostic: even a writer that offered one byte per poll would stay below this
        let budget = self.sink.len() as u64 * (1 + self.sink_repeat as u64) + self.caller.len() as u64 + 10 * (n + 1) + 64 + byte_budget(off);
        let budget = budget + 2 * self.flush_lane.len() as u64;
        let core = SinkCore::new(self.sink.clone(), None, budget, obs.clone());
        core.borrow_mut().layout = layout;
        core.borrow_mut().flush_lane = self.flush_lane.clone();
        core.borrow_mut().repeat_left = self.sink_repeat;
        core.borrow_mut().data_cap = 2 * off + 65_536;
        let mut writer = AsyncWriter::with_buffer(SimAsyncSink(core.clone()), garbage(self.init_buf as usize));
        if self.init_buf > 0 {
            obs.borrow_mut().fault(fk::garbage_buffer);
        }
        let (cw, waker) = new_waker();
        if self.late_cancel {
            obs.borrow_mut().fault(fk::late_cancel);
        }
        let mut w = World {
            core: core.clone(),
            obs: obs.clone(),
            caller: Caller::with_default(self.caller.clone(), if self.late_cancel { Decide::Cancel } else { Decide::Poll }),
            committed: Vec::new(),
            inflight: None,
            inflight_seen: 0,
            polls: 0,
            budget,
            ret_err: [0; NK],
            ret_zero: 0,
            cw: cw.clone(),
        };

        let mut write_cancels = 0u32;
        for (idx, it) in self.items.iter().enumerate() {
            if self.rewrap_at == Some(idx as u32) {
                // the writer is idle here (every frame is driven to completion): hand its parts to a fresh writer
                let (sink, buf) = writer.into_parts();
                writer = AsyncWriter::with_buffer(sink, buf);
                if self.max_len_mode != 0 && idx > knob_at {
                    writer.set_max_len(knob_len as u32);
                }
                obs.borrow_mut().probe(pb::rewrap_at_boundary);
            }
            if self.max_len_mode != 0 && idx == knob_at {
                writer.set_max_len(knob_len as u32);
                obs.borrow_mut().fault(fk::max_len_knob);
                if idx > 0 {
                    obs.borrow_mut().probe(pb::max_len_changed_mid_run);
                }
            }
            let max_len = max_len_for(idx);
            if self.touch {
                let _ = writer.writer_mut();
                let _ = writer.writer();
            }
            if it.sync_before {
                idle_sync(&mut w, &mut writer, &waker, &format!("idle sync before write #{idx}"), false)?;
            }
            obs.borrow_mut().event(ev::ISSUE, 1);
            let at = format!("write #{idx}");
            let outcome = match &it.kind {
                ItemKind::Fail(partial) => {
                    obs.borrow_mut().fault(fk::encode_fail);
                    if *partial > 0 {
                        obs.borrow_mut().probe(pb::failed_encode_partial_bytes);
                    }
                    // drive by hand: same loop as the visitor, for the harness-defined failing type
                    let v = FailEncode { partial: *partial as usize };
                    let vis = WriteVisitor { w: &mut w, writer: &mut writer, cx_waker: &waker, use_ctx: self.use_ctx, expect_ok: false, payload_len: 0, idx };
                    vis.visit(&v)?
                }
                ItemKind::Val(spec) => {
                    let p = payloads[idx].as_ref();
                    let fits = p.map(|p| p.len() <= max_len).unwrap_or(false);
                    if let (Some(p), true) = (p, fits) {
                        w.inflight = Some(frame(p));
                        w.inflight_seen = 0;
                        let mut o = obs.borrow_mut();
                        if p.len() == max_len {
                            o.probe(pb::frame_len_eq_max_len)
                        }
                        if p.len() >= 65536 {
                            o.probe(pb::large_frame_ge_64k)
                        }
                    } else if let Some(p) = p {
                        let mut o = obs.borrow_mut();
                        o.fault(fk::oversize_value);
                        if p.len() == max_len + 1 {
                            o.probe(pb::frame_len_eq_max_len_plus_1)
                        }
                    }
                    let vis =
                        WriteVisitor { w: &mut w, writer: &mut writer, cx_waker: &waker, use_ctx: self.use_ctx, expect_ok: fits, payload_len: p.map(|p| p.len()).unwrap_or(0), idx };
                    with_value(spec, vis)?
                }
            };
            let expect_payload: Option<usize> = w.inflight.as_ref().map(|f| f.len() - 4);
            match outcome {
                Drive::Cancelled => {
                    if w.inflight.is_none() {
                        fail!("s_reject_silent", "{at}: a value that must be rejected made write return Pending");
                    }
                    if self.max_len_mode == 0 {
                        if self.knob_mid == Some(write_cancels) {
                            let m = payloads.iter().skip(idx + 1).flatten().map(|p| p.len()).max().unwrap_or(0);
                            writer.set_max_len(m as u32);
                            obs.borrow_mut().probe(pb::max_len_changed_mid_run);
                        }
                        write_cancels += 1;
                    }
                    if self.touch {
                        let _ = writer.writer_mut();
                    }
                    if self.flush_mid {
                        // flushing the sink is not a write: the frame in flight must survive it
                        obs.borrow_mut().fault(fk::flush_between_cancel_and_sync);
                        let mut cx = Context::from_waker(&waker);
                        let mut fut = Box::pin(writer.flush());
                        loop {
                            w.tick()?;
                            match fut.as_mut().poll(&mut cx) {
                                Poll::Ready(Ok(())) => break,
                                Poll::Ready(Err(Error::Io(e))) => {
                                    w.note_io_err(e.kind(), "flush before sync")?;
                                    break;
                                }
                                Poll::Ready(Err(e)) => fail!("s_commit", "flush before the resuming sync failed: {e}"),
                                Poll::Pending => {}
                            }
                        }
                        drop(fut);
                        w.check_sink("flush before sync")?;
                    }
                    sync_to_completion(&mut w, &mut writer, &waker, &format!("sync after cancelled write #{idx}"))?;
                }
                Drive::Done(res) => {
                    obs.borrow_mut().event(ev::RESULT, 0);
                    match (res, expect_payload) {
                        (WRes::Ok(nret), Some(pl)) => {
                            if nret != pl {
                                fail!("s_return_len", "{at}: returned Ok({nret}), payload is {pl} bytes");
                            }
                            w.commit(&at)?;
                        }
                        (WRes::Ok(nret), None) => {
                            fail!("s_reject_silent", "{at}: returned Ok({nret}) for a value that must be rejected (encode failure or larger than max_len {max_len})");
                        }
                        (WRes::Io(k), Some(_)) => {
                            w.note_io_err(k, &at)?;
                            obs.borrow_mut().probe(pb::err_then_sync_resume);
                            sync_to_completion(&mut w, &mut writer, &waker, &format!("sync after failed write #{idx}"))?;
                        }
                        (WRes::Io(k), None) => fail!("s_reject_silent", "{at}: i/o error {k:?} for a value that must be rejected before any i/o"),
                        (WRes::Encode(e), _) => {
                            if !matches!(it.kind, ItemKind::Fail(_)) && payloads[idx].is_some() {
                                fail!("s_return_len", "{at}: Encode error {e} for a value that encodes");
                            }
                            w.check_sink(&at).map_err(|v| Violation::new("s_reject_silent", v.detail))?;
                            idle_sync(&mut w, &mut writer, &waker, &format!("idle sync after rejected write #{idx}"), true)?;
                        }
                        (WRes::InvalidLen, exp) => {
                            if exp.is_some() || matches!(it.kind, ItemKind::Fail(_)) {
                                fail!("s_max_len", "{at}: InvalidLen although the payload ({:?} bytes) is within max_len {max_len}", exp);
                            }
                            w.check_sink(&at).map_err(|v| Violation::new("s_reject_silent", v.detail))?;
                            idle_sync(&mut w, &mut writer, &waker, &format!("idle sync after oversize write #{idx}"), true)?;
                        }
                        (WRes::Other(e), _) => fail!("s_commit", "{at}: unexpected error {e}"),
                    }
                }
            }
            if it.flush_after {
                let mut cx = Context::from_waker(&waker);
                let mut fut = Box::pin(writer.flush());
                loop {
                    w.tick()?;
                    match fut.as_mut().poll(&mut cx) {
                        Poll::Ready(Ok(())) => break,
                        Poll::Ready(Err(Error::Io(e))) => {
                            // the sink's flush failed (scripted): passes through, changes nothing
                            w.note_io_err(e.kind(), "flush")?;
                            break;
                        }
                        Poll::Ready(Err(e)) => fail!("s_commit", "flush after write #{idx} failed: {e}"),
                        Poll::Pending => {}
                    }
                }
                drop(fut);
                w.check_sink("flush")?;
            }
        }
        // final: everything committed, exactly
        w.check_sink("end of run")?;
        let core = core.borrow();
        if core.data != w.committed {
            fail!("s_commit", "end of run: sink has {} bytes, log has {}", core.data.len(), w.committed.len());
        }
        for k in ERR_KINDS {
            if core.served_err[k.idx()] != w.ret_err[k.idx()] {
                fail!("s_transient_once", "sink produced {} {} errors, writer reported {}", core.served_err[k.idx()], k.name(), w.ret_err[k.idx()]);
            }
        }
        if core.zero_served != w.ret_zero {
            fail!("s_write_zero", "sink accepted zero bytes {} times, WriteZero was reported {} times", core.zero_served, w.ret_zero);
        }
        // stale buffer contents must never reach the sink: implied by equality with the log
        Ok(())
    }
}

impl Scenario for C16 {
    fn to_json(&self) -> Json {
        Json::obj()
            .set("items", Json::Arr(self.items.iter().map(|i| i.to_json()).collect()))
            .set("max_len_mode", self.max_len_mode as u32)
            .set("init_buf", self.init_buf)
            .set("use_ctx", self.use_ctx)
            .set("knob_at", self.knob_at)
            .set("rewrap_at", self.rewrap_at)
            .set("knob_mid", self.knob_mid)
            .set("touch", self.touch)
            .set("late_cancel", self.late_cancel)
            .set("sink_repeat", self.sink_repeat)
            .set("flush_mid", self.flush_mid)
            .set("sink", lane_to_json(&self.sink))
            .set("flush_lane", lane_to_json(&self.flush_lane))
            .set("caller", decides_to_json(&self.caller))
    }
    fn from_json(j: &Json) -> Result<Self, String> {
        Ok(C16 {
            items: j.get("items").and_then(|v| v.as_arr()).ok_or("items")?.iter().map(Item::from_json).collect::<Result<_, _>>()?,
            max_len_mode: j.get("max_len_mode").and_then(|c| c.as_u64()).unwrap_or(0) as u8,
            init_buf: j.get("init_buf").and_then(|c| c.as_u64()).unwrap_or(0) as u32,
            use_ctx: j.get("use_ctx").and_then(|c| c.as_bool()).unwrap_or(false),
            knob_at: j.get("knob_at").and_then(|c| c.as_u64()).unwrap_or(0) as u32,
            rewrap_at: j.get("rewrap_at").and_then(|c| c.as_u64()).map(|c| c as u32),
            knob_mid: j.get("knob_mid").and_then(|c| c.as_u64()).map(|c| c as u32),
            touch: j.get("touch").and_then(|c| c.as_bool()).unwrap_or(false),
            late_cancel: j.get("late_cancel").and_then(|c| c.as_bool()).unwrap_or(false),
            sink_repeat: j.get("sink_repeat").and_then(|c| c.as_u64()).unwrap_or(0) as u32,
            flush_mid: j.get("flush_mid").and_then(|c| c.as_bool()).unwrap_or(false),
            sink: lane_from_json(j.get("sink"))?,
            flush_lane: if j.get("flush_lane").is_some() { lane_from_json(j.get("flush_lane"))? } else { Vec::new() },
            caller: decides_from_json(j.get("caller"))?,
        })
    }
    fn run(&self, obs: &mut Obs) -> Result<(), Violation> {
        let shared = Rc::new(RefCell::new(Obs::new()));
        let r = self.run_inner(shared.clone());
        *obs = shared.replace(Obs::new());
        r
    }
    fn shrink(&self) -> Vec<Self> {
        let mut out = Vec::new();
        shrink_vec(&self.items, |v| out.push(C16 { items: v, ..self.clone() }));
        shrink_vec(&self.sink, |v| out.push(C16 { sink: v, ..self.clone() }));
        shrink_vec(&self.caller, |v| out.push(C16 { caller: v, ..self.clone() }));
        shrink_vec(&self.flush_lane, |v| out.push(C16 { flush_lane: v, ..self.clone() }));
        for (i, st) in self.sink.iter().enumerate() {
            if !matches!(st, Step::Xfer(u32::MAX)) {
                let mut l = self.sink.clone();
                l[i] = Step::Xfer(u32::MAX);
                out.push(C16 { sink: l, ..self.clone() });
            }
        }
        for (i, d) in self.caller.iter().enumerate() {
            if *d == Decide::Cancel {
                let mut l = self.caller.clone();
                l[i] = Decide::Poll;
                out.push(C16 { caller: l, ..self.clone() });
            }
        }
        // per-item shrinking clones the whole scenario per candidate: only once the list is short
        for (i, it) in self.items.iter().enumerate().take(if self.items.len() <= 64 { usize::MAX } else { 0 }) {
            let mut push = |item: Item| {
                let mut v = self.items.clone();
                v[i] = item;
                out.push(C16 { items: v, ..self.clone() });
            };
            if it.sync_before {
                push(Item { sync_before: false, ..it.clone() });
            }
            if it.flush_after {
                push(Item { flush_after: false, ..it.clone() });
            }
            match &it.kind {
                ItemKind::Val(v) => {
                    if v.ty != Ty::Str {
                        push(Item { kind: ItemKind::Val(ValSpec { ty: Ty::Str, ..v.clone() }), ..it.clone() });
                    }
                    for sv in v.shrink() {
                        push(Item { kind: ItemKind::Val(sv), ..it.clone() });
                    }
                }
                ItemKind::Fail(p) if *p > 0 => push(Item { kind: ItemKind::Fail(0), ..it.clone() }),
                _ => {}
            }
        }
        if self.init_buf > 0 {
            out.push(C16 { init_buf: 0, ..self.clone() });
        }
        if self.max_len_mode != 0 {
            out.push(C16 { max_len_mode: 0, ..self.clone() });
        }
        if self.use_ctx {
            out.push(C16 { use_ctx: false, ..self.clone() });
        }
        if self.knob_at != 0 {
            out.push(C16 { knob_at: 0, ..self.clone() });
        }
        if self.rewrap_at.is_some() {
            out.push(C16 { rewrap_at: None, ..self.clone() });
        }
        if self.knob_mid.is_some() {
            out.push(C16 { knob_mid: None, ..self.clone() });
        }
        if self.touch {
            out.push(C16 { touch: false, ..self.clone() });
        }
        if self.late_cancel {
            out.push(C16 { late_cancel: false, ..self.clone() });
        }
        if self.sink_repeat > 0 {
            out.push(C16 { sink_repeat: 0, ..self.clone() });
            out.push(C16 { sink_repeat: self.sink_repeat / 2, ..self.clone() });
            out.push(C16 { sink_repeat: self.sink_repeat - 1, ..self.clone() });
        }
        if self.flush_mid {
            out.push(C16 { flush_mid: false, ..self.clone() });
        }
        out
    }
}

// ---------------------------------------------------------------------------------------

fn val(ty: Ty, size: u32, seed: u64) -> Item {
    Item { kind: ItemKind::Val(ValSpec { ty, size, seed }), sync_before: false, flush_after: false }
}

fn base(items: Vec<Item>) -> C16 {
    C16 { items, max_len_mode: 0, init_buf: 0, use_ctx: false, knob_at: 0, rewrap_at: None, knob_mid: None, touch: false, late_cancel: false, sink_repeat: 0, flush_mid: false, sink: vec![], flush_lane: vec![], caller: vec![] }
}

fn total_len(items: &[Item]) -> usize {
    items
        .iter()
        .map(|i| match &i.kind {
            ItemKind::Val(v) => reference_encoding(v).map(|p| p.len() + 4).unwrap_or(0),
            _ => 0,
        })
        .sum()
}

/// Value types written through the async writer (any encodable type; no decode side needed).
const W_TYS: &[Ty] = &[
    Ty::U64, Ty::Str, Ty::String, Ty::Bytes, Ty::Tuple3, Ty::Borrowed, Ty::Tree, Ty::VecU32, Ty::OptStr, Ty::MapRec, Ty::Gappy, Ty::Shape, Ty::Unit,
    Ty::I32, Ty::F64, Ty::Tokens, Ty::EncOps, Ty::Empty, Ty::BTreeMapU32Str, Ty::Duration, Ty::VecString, Ty::TaggedRec, Ty::Point, Ty::Color,
    Ty::SelfDesc, Ty::Embedded, Ty::Ticket, Ty::Ticket, Ty::Nested,
];

fn generate_single(r: &mut Rng, tier: Tier) -> C16 {
    let shape = gen_shape(r, tier == Tier::Thorough);
    let big = shape.big;
    let nitems = shape.nframes;
    let mixed = r.chance(1, 2);
    let ty0 = *r.pick(W_TYS);
    let en_reject = r.chance(1, 3);
    let mut items = Vec::new();
    for _ in 0..nitems {
        let kind = if en_reject && r.chance(1, 5) {
            ItemKind::Fail(if r.chance(1, 2) { 0 } else { r.range(1, 300) as u32 })
        } else {
            let size = shape.size(r, items.len());
            if big && items.is_empty() {
                items.push(Item { kind: ItemKind::Val(ValSpec { ty: *r.pick(BYTEY_TYS), size, seed: r.next_u64() }), sync_before: false, flush_after: r.chance(1, 10) });
                continue;
            }
            ItemKind::Val(ValSpec { ty: if mixed { *r.pick(W_TYS) } else { ty0 }, size, seed: r.next_u64() })
        };
        items.push(Item { kind, sync_before: r.chance(1, 6), flush_after: r.chance(1, 10) });
    }
    if r.chance(1, 3) {
        // byte-identical consecutive values (a writer must not take the second one for a retry of the first)
        for i in 1..items.len() {
            if r.chance(1, 4) {
                if let ItemKind::Val(v) = items[i - 1].kind.clone() {
                    items[i].kind = ItemKind::Val(v);
                }
            }
        }
    }
    let len = total_len(&items);
    let largest = items.iter().map(|i| match &i.kind { ItemKind::Val(v) => reference_encoding(v).map(|p| p.len() + 4).unwrap_or(0), _ => 0 }).max().unwrap_or(0);
    let en_short = r.chance(3, 4);
    let en_pending = r.chance(3, 4);
    let en_err = r.chance(1, 2);
    let en_zero = r.chance(1, 3);
    let en_cancel = r.chance(3, 4);
    let density = *r.pick(&[1u64, 1, 3, 8]);
    let gran = *r.pick(&[1u32, 2, 4, 4, 16, 64, 1024]);
    let lane_max = if tier == Tier::Quick { 64 } else if r.chance(1, 4) { 200 } else { 96 };
    let lane_len = r.usize_in(0, lane_max);
    let mut sink = Vec::with_capacity(lane_len);
    for _ in 0..lane_len {
        let roll = r.below(16);
        let st = if roll < density {
            match r.below(4) {
                0 if en_pending => Step::Pending,
                1 if en_err => Step::Err(*r.pick(&ERR_KINDS)),
                2 if en_zero => Step::Zero,
                _ if en_pending => Step::Pending,
                _ => Step::Xfer(1),
            }
        } else if en_short {
            Step::Xfer(shape.xfer(r, gran, largest))
        } else {
            Step::Xfer(u32::MAX)
        };
        sink.push(st);
    }
    if en_pending && en_cancel && r.chance(1, 5) {
        sink.clear();
        for _ in 0..len.min(48) {
            sink.push(Step::Pending);
            if r.chance(1, 6) {
                sink.push(Step::Pending)
            }
            sink.push(Step::Xfer(1 + r.below(gran.min(4) as u64) as u32));
        }
    }
    // a big frame accepted in uniform small pieces from its first to its last byte
    let mut uniform_repeat = None;
    if big && r.chance(1, if tier == Tier::Thorough { 64 } else { 4 }) {
        sink = vec![Step::Xfer(*r.pick(&[1u32, 1, 2, 7, 1448, 4096]))];
        uniform_repeat = Some(1u32 << 20);
    }
    let npend = sink.iter().filter(|s| **s == Step::Pending).count();
    let cancel_rate = *r.pick(&[1u64, 4, 8]);
    let caller: Vec<Decide> = (0..npend).map(|_| if en_cancel && r.chance(cancel_rate, 16) { Decide::Cancel } else { Decide::Poll }).collect();
    C16 {
        items,
        max_len_mode: if r.chance(1, 3) { 1 + r.below(3) as u8 } else if r.chance(1, 12) { 9 } else { 0 },
        init_buf: if let Some(n) = shape.roomy_init { n } else if r.chance(1, 3) { r.range(1, 300) as u32 } else { 0 },
        use_ctx: r.chance(1, 8),
        knob_at: if r.chance(1, 4) { r.below(nitems as u64) as u32 } else { 0 },
        rewrap_at: if r.chance(1, 6) { Some(r.below(nitems as u64) as u32) } else { None },
        knob_mid: if r.chance(1, 4) { Some(r.below(3) as u32) } else { None },
        touch: r.chance(1, 3),
        late_cancel: r.chance(1, 3),
        sink_repeat: uniform_repeat.unwrap_or_else(|| gen_repeat(r, shape.history || shape.marathon)),
        flush_mid: r.chance(1, 3),
        sink,
        flush_lane: if r.chance(1, 3) {
            (0..r.usize_in(1, 12)).map(|_| match r.below(4) { 0 => Step::Pending, 1 => Step::Err(*r.pick(&ERR_KINDS)), _ => Step::Xfer(1) }).collect()
        } else {
            Vec::new()
        },
        caller,
    }
}

/// A C16 run is either the single-task world or the two-task pipe world (writer-side oracles).
#[derive(Clone, Debug)]
pub enum S16 {
    Single(C16),
    Pipe(crate::pipe::PipeSc),
}

impl Scenario for S16 {
    fn to_json(&self) -> Json {
        match self {
            S16::Single(c) => c.to_json(),
            S16::Pipe(p) => p.to_json(),
        }
    }
    fn from_json(j: &Json) -> Result<Self, String> {
        if j.get("kind").and_then(|k| k.as_str()) == Some("pipe") {
            Ok(S16::Pipe(crate::pipe::PipeSc::from_json(j)?))
        } else {
            Ok(S16::Single(C16::from_json(j)?))
        }
    }
    fn run(&self, obs: &mut Obs) -> Result<(), Violation> {
        match self {
            S16::Single(c) => c.run(obs),
            S16::Pipe(p) => p.run(crate::pipe::Side::Writer, obs),
        }
    }
    fn shrink(&self) -> Vec<Self> {
        match self {
            S16::Single(c) => c.shrink().into_iter().map(S16::Single).collect(),
            S16::Pipe(p) => p.shrink().into_iter().map(S16::Pipe).collect(),
        }
    }
}

fn enum_depth(tier: Tier) -> u32 {
    if tier == Tier::Quick {
        7
    } else {
        9
    }
}

pub struct P16;

impl Property for P16 {
    type S = S16;
    const ID: &'static str = "C16";
    const LEVEL: &'static str = "exploration";

    fn sweeps(tier: Tier) -> Vec<S16> {
        let mut out: Vec<C16> = Vec::new();
        let tys: &[Ty] = if tier == Tier::Quick { &[Ty::Str, Ty::Bytes] } else { &[Ty::Str, Ty::Bytes, Ty::Tree, Ty::MapRec] };
        for &ty in tys {
            let items = vec![val(ty, 0, 7), val(ty, 1, 8), val(ty, 24, 9)];
            let len = total_len(&items);
            // (a) every uniform accept size
            for k in 1..=len {
                out.push(C16 { sink: vec![Step::Xfer(k as u32); len / k + 3], ..base(items.clone()) });
            }
            // (b) Pending before every byte; cancel the write at the i-th Pending, then sync
            let pend_lane = |n: usize| {
                let mut l = Vec::new();
                for _ in 0..n + 2 {
                    l.push(Step::Pending);
                    l.push(Step::Xfer(1));
                }
                l
            };
            for i in 0..=len + 1 {
                let mut caller = vec![Decide::Poll; i];
                caller.push(Decide::Cancel);
                out.push(C16 { sink: pend_lane(len), caller, ..base(items.clone()) });
            }
            // (c) cancel the write at Pending i, then cancel the sync at Pending j
            let items2 = vec![val(ty, 1, 8), val(ty, 3, 9)];
            let len2 = total_len(&items2);
            for i in 0..len2 {
                for j in i + 1..=len2 {
                    let mut caller = vec![Decide::Poll; j + 1];
                    caller[i] = Decide::Cancel;
                    caller[j] = Decide::Cancel;
                    out.push(C16 { sink: pend_lane(len2), caller, init_buf: 9, ..base(items2.clone()) });
                }
            }
            // (d) Zero and each error kind before every byte (1-byte accepts)
            for i in 0..=len {
                let mut faults = vec![Step::Zero];
                faults.extend(ERR_KINDS.iter().map(|k| Step::Err(*k)));
                for f in faults {
                    let mut sink = vec![Step::Xfer(1); i];
                    sink.push(f);
                    sink.extend(std::iter::repeat(Step::Xfer(1)).take(len - i));
                    out.push(C16 { sink, ..base(items.clone()) });
                    // and with whole-buffer accepts after the fault
                    let mut sink = vec![Step::Xfer(1); i];
                    sink.push(f);
                    out.push(C16 { sink, ..base(items.clone()) });
                }
            }
            // (d2) two faults in a row before every byte
            for (f1, f2) in [(Step::Zero, Step::Zero), (Step::Err(ErrKind::WouldBlock), Step::Err(ErrKind::WouldBlock)), (Step::Zero, Step::Err(ErrKind::Other)), (Step::Err(ErrKind::Interrupted), Step::Zero)] {
                for i in 0..=len {
                    let mut sink = vec![Step::Xfer(1); i];
                    sink.push(f1);
                    sink.push(f2);
                    out.push(C16 { sink, ..base(items.clone()) });
                }
            }
            // (e) a fault inside the resuming sync: cancel at i, error/zero at the next call
            for i in 0..=len2 {
                for f in [Step::Zero, Step::Err(ErrKind::TimedOut)] {
                    let mut sink = Vec::new();
                    for b in 0..len2 + 2 {
                        sink.push(Step::Pending);
                        if b == i {
                            sink.push(f);
                        }
                        sink.push(Step::Xfer(1));
                    }
                    let mut caller = vec![Decide::Poll; i];
                    caller.push(Decide::Cancel);
                    out.push(C16 { sink, caller, ..base(items2.clone()) });
                }
            }
            // (f) max_len around the frame size, rejects followed by idle syncs, failing encodes
            for mode in 0..=3u8 {
                let mut its = vec![val(ty, 5, 1), val(ty, 30, 2), val(ty, 31, 3), val(ty, 2, 4)];
                its.insert(2, Item { kind: ItemKind::Fail(0), sync_before: true, flush_after: false });
                its.insert(4, Item { kind: ItemKind::Fail(13), sync_before: false, flush_after: true });
                for it in its.iter_mut().step_by(2) {
                    it.sync_before = true;
                }
                for g in [u32::MAX, 1, 5] {
                    out.push(C16 { max_len_mode: mode, sink: vec![Step::Xfer(g); 90], init_buf: 40, ..base(its.clone()) });
                }
            }
        }
        // the default limit itself: a payload of exactly 512 KiB is written, one byte more is refused without a byte reaching the sink
        {
            let it = |v: ValSpec| Item { kind: ItemKind::Val(v), sync_before: false, flush_after: false };
            let small = ValSpec { ty: Ty::Bytes, size: 3, seed: 7 };
            for g in [u32::MAX, 65_536, 100_000] {
                let lane = if g == u32::MAX { vec![] } else { vec![Step::Xfer(g); 12] };
                out.push(C16 { sink: lane.clone(), ..base(vec![it(small.clone()), it(bytes_spec_with_encoding_len(DEFAULT_MAX_LEN)), it(small.clone())]) });
                let mut over = it(bytes_spec_with_encoding_len(DEFAULT_MAX_LEN + 1));
                over.sync_before = true;
                out.push(C16 { sink: lane.clone(), ..base(vec![it(small.clone()), over.clone(), Item { sync_before: true, ..it(small.clone()) }]) });
                // the same through with_buffer with a buffer roomier than the limit (capacity == length, and with spare capacity):
                // the room a caller hands in does not raise the limit
                for init_buf in [700_000u32, 699_999] {
                    out.push(C16 { sink: lane.clone(), init_buf, ..base(vec![it(small.clone()), over.clone(), Item { sync_before: true, ..it(small.clone()) }]) });
                    out.push(C16 { sink: lane.clone(), init_buf, ..base(vec![it(small.clone()), it(bytes_spec_with_encoding_len(DEFAULT_MAX_LEN)), it(small.clone())]) });
                }
            }
        }
        // a frame of more than 16 MiB (most significant prefix byte non-zero), whole and in 5 MiB pieces with a cancellation;
        // more than 65536 frames through one writer (16-bit counters)
        {
            let it = |v: ValSpec| Item { kind: ItemKind::Val(v), sync_before: false, flush_after: false };
            let small = ValSpec { ty: Ty::Bytes, size: 3, seed: 7 };
            for g in [u32::MAX, 5 << 20] {
                let lane = if g == u32::MAX { vec![] } else { vec![Step::Xfer(g), Step::Pending, Step::Xfer(g), Step::Xfer(g)] };
                out.push(C16 { sink: lane, caller: vec![Decide::Cancel], max_len_mode: 1, ..base(vec![it(small.clone()), it(spec_with_encoding_len(Ty::Str, (16 << 20) + 11)), it(small.clone())]) });
            }
            out.push(base((0..65_700u64).map(|i| it(ValSpec { ty: Ty::U64, size: 0, seed: i })).collect()));
        }
        let mut all: Vec<S16> = out.into_iter().map(S16::Single).collect();
        all.extend(crate::pipe::PipeSc::sweeps().into_iter().map(S16::Pipe));
        all
    }

    // exhaustive bounded enumeration: every lane of the given depth over the alphabet
    // {accept 1, accept 2, accept all, Pending+keep polling, Pending+cancel(then sync), accept 0, transient error}
    // for two small frames (11 bytes)
    fn enumerated(tier: Tier) -> u64 {
        7u64.pow(enum_depth(tier))
    }

    fn enumerate(tier: Tier, i: u64) -> S16 {
        let depth = enum_depth(tier);
        let mut x = i;
        let mut sink = Vec::with_capacity(depth as usize);
        let mut caller = Vec::new();
        for _ in 0..depth {
            match x % 7 {
                0 => sink.push(Step::Xfer(1)),
                1 => sink.push(Step::Xfer(2)),
                2 => sink.push(Step::Xfer(u32::MAX)),
                3 => {
                    sink.push(Step::Pending);
                    caller.push(Decide::Poll)
                }
                4 => {
                    sink.push(Step::Pending);
                    caller.push(Decide::Cancel)
                }
                5 => sink.push(Step::Zero),
                _ => sink.push(Step::Err(ErrKind::TimedOut)),
            }
            x /= 7;
        }
        S16::Single(C16 { sink, caller, ..base(vec![val(Ty::Str, 0, 7), val(Ty::Str, 1, 8)]) })
    }

    fn random_runs(tier: Tier) -> u64 {
        match tier {
            Tier::Quick => 1_500_000,
            Tier::Thorough => 100_000_000,
        }
    }

    fn generate(r: &mut Rng, tier: Tier) -> S16 {
        if r.chance(1, 6) {
            return S16::Pipe(crate::pipe::PipeSc::generate(r));
        }
        S16::Single(generate_single(r, tier))
    }

    fn probes() -> Vec<usize> {
        vec![pb::cancel_of_sync, pb::resume_with_offset_lt_4, pb::resume_with_offset_ge_4, pb::frame_len_eq_max_len, pb::frame_len_eq_max_len_plus_1, pb::write_zero_mid_frame, pb::double_cancel_same_frame, pb::idle_sync, pb::reject_then_idle_sync, pb::short_write_mid_prefix, pb::short_write_mid_payload, pb::large_frame_ge_64k, pb::failed_encode_partial_bytes, pb::pipe_both_blocked_resolved, pb::pipe_writer_cancel, pb::err_then_sync_resume, pb::rewrap_at_boundary, pb::max_len_changed_mid_run]
    }

    fn rule() -> &'static str {
        "sweeps: every uniform accept size; Pending before every byte with the write cancelled at every position then synced; every \
         (cancel write at i, cancel sync at j) pair; accept-0 and each error kind before every byte; a fault inside the resuming sync; \
         max_len modes x rejects followed by idle syncs x failing encodes. Then seeded swarm runs (1-8 items of 23 value types, failing \
         encodes, oversize values, idle syncs, flushes, garbage initial buffer, random subsets of {short accept, Pending, error, accept-0, \
         cancel write, cancel sync}). Non-trivial = a short accept, Pending, error, accept-0 or cancellation landed strictly inside a \
         frame; distinct = distinct hash of the executed event trace."
    }

    fn assumptions() -> Vec<&'static str> {
        vec![
            "the caller follows the licensed protocol: after dropping a pending write or after an I/O error it drives sync() to Ok(()) before the next write",
            "the sink is a reliable ordered byte stream that keeps what it accepted",
            "payload bytes are the library's own encoding (E(v) = to_vec); the frame prefix is computed by the harness",
            "futures_util::io::Write is one poll_write per poll (checked for futures-util 0.3.34)",
            "frames >= 4 GiB (u32 prefix wrap) are not simulated",
        ]
    }

    fn real_components() -> Vec<&'static str> {
        vec!["minicbor_io::AsyncWriter (write, write_with, sync, flush, with_buffer, set_max_len)", "futures_util AsyncWriteExt::write / flush futures", "minicbor Encoder + Encode impls of the workload types (incl. derive-generated)"]
    }

    fn stub_components() -> Vec<&'static str> {
        vec!["SimAsyncSink (scripted AsyncWrite: accept k / Pending / Err(kind) / Ok(0))", "single-task executor; caller lane decides poll vs drop, then the sync protocol", "frame log (reference model) written in the harness"]
    }
}

#[allow(dead_code)]
fn _unused(_: &str) -> String {
    clip("")
}
